#!/bin/bash
# usage: tools_confirm_seed.sh <seed dir>   -- confirm a seeded change in a scratch worktree:
#   patch applies; test pass-list unchanged; demo exits 0 without and !=0 with the patch.
set -u
D=$(realpath "$1"); W=/tmp/wt/confirm_$$
git -C /repo worktree add --detach $W HEAD >/dev/null 2>&1 || exit 2
run_tests() { (cd $W && PYTHONPATH=$W/src timeout 1200 /venv/bin/python -m pytest -q -p no:cacheprovider --timeout=900 -rA --deselect tests/integration/plot_mpl_test.py --deselect tests/integration/plot_plotly_test.py 2>&1 | grep -E '^(PASSED|FAILED|ERROR)' | sort); }
run_tests > $W/before.txt
(cd $W && PYTHONPATH=$W/src timeout 600 /venv/bin/python $D/demo.py >/dev/null 2>&1); D0=$?
git -C $W apply $D/patch.diff || { echo "patch does not apply"; git -C /repo worktree remove --force $W; exit 2; }
run_tests > $W/after.txt
(cd $W && PYTHONPATH=$W/src timeout 600 /venv/bin/python $D/demo.py >$W/demo_out.txt 2>&1); D1=$?
NP=$(grep -c '^PASSED' $W/before.txt); NA=$(grep -c '^PASSED' $W/after.txt)
if diff -q $W/before.txt $W/after.txt >/dev/null; then TD=same; else TD=DIFFERENT; fi
echo "seed=$(basename $D) tests_before_passed=$NP tests_after_passed=$NA testlists=$TD demo_without_patch_exit=$D0 demo_with_patch_exit=$D1"
tail -3 $W/demo_out.txt
git -C /repo worktree remove --force $W
[ "$TD" = same ] && [ $D0 -eq 0 ] && [ $D1 -ne 0 ]
