"""C11 - radial distributions equal brute-force histograms and partition over states.

exec (unmodified): gemdat.rdf.radial_distribution_between_species, radial_distribution, _uniqify_labels,
_get_states, _get_states_array, _get_symbol_indices, Trajectory.filter/get_lattice, Transitions.states_prev/next
(ffill/bfill).
"""
from __future__ import annotations

import math
from fractions import Fraction as F

import numpy as np

from symgem import core, pool
from symgem.core import SRoot, assume, conj, disj, event, implies, ite, prove, sample, sym_int, sym_real
from symgem.runner import symbolic_job
from symgem.stubs import LatticeProxy
from symgem.symnp import Patches, S

PROPERTY = 'C11'
NOSITE = -1

BOUNDS = {
    'quick': 'between-species: 1 frame, one atom with coordinates any reals in [0,1)^3 against 1-2 concrete atoms of the other species on '
             'cubic5 / hex558, (max_dist, resolution) in {(2.0, 0.5), (3.0, 1.0)}; per-state RDF: 2 frames, diffusing atom with symbolic '
             'states over 3 labelled sites (labels A,A,B) and one symbolic coordinate axis, 2 other atoms (S and Si)',
    'thorough': 'additionally tric / rhombohedral lattices, 2 frames for the species-pair RDF; per-state RDF (2 frames) on cubic, hexagonal, triclinic cells',
}
OUTSIDE = ['more than 3 atoms; per-state RDF with 3 frames (> 25 min)', 'binary64 rounding of np.arange bin edges (read as exact rationals)']
ASSUMPTIONS = [
    'Lattice.get_all_distances contract: componentwise reduction of the difference to [-1/2,1/2), then minimum of the metric-tensor '
    'quadratic form over the 27 neighbouring images (27-image lemma checked per pool lattice by selftest)',
    'input positions lie in [0,1), where np.mod(x, 1) is the identity (cut; wrapping itself is C01)',
    'trajectory.get_structure(0) (species/labels only) is built from placeholder coordinates',
]
STUBS = ['pymatgen Lattice (as seen by gemdat.trajectory) -> symgem.stubs.LatticeProxy', 'np.histogram / np.digitize / np.bincount / np.unique (symgem.symnp)',
         'rich.progress.track -> identity']


def _lattice_factory(lat_name):
    from pymatgen.core import Lattice
    cache = {}

    def make(m):
        key = 'L'
        if key not in cache:
            cache[key] = LatticeProxy(Lattice(np.asarray(m, dtype=float)))
        return cache[key]
    return make


def _traj(gt, species, coords, M):
    from pymatgen.core import Species
    return gt.Trajectory(species=[Species(s) for s in species], coords=coords, lattice=M, time_step=1e-15, metadata={'temperature': 300})


def _patch_common(p, lat):
    import gemdat.rdf as gr
    import gemdat.trajectory as gt
    import gemdat.transitions as gtr
    import gemdat.utils as gu
    import pymatgen.core.trajectory as pt
    p.np(gt, pt, gu, gtr)
    p.set(core, 'FLOOR_FORK', True)  # downstream arithmetic is quadratic: keep ToInt terms out of it
    p.np(gr, extra={'array': lambda *a, **k: S(np.array(*a, **k))})
    # cut: positions handed in lie in [0,1), where the wrap is the identity
    gt.np._extra['mod'] = lambda a, m, *x, **y: a
    p.set(gt, 'Lattice', _lattice_factory(lat))
    p.set(gr, 'track', lambda it, **k: it)
    return gr, gt, gtr


def _dist2(LP, a, b):
    return LP.dist2_generic(a, b)


# --------------------------------------------------------------------------- between species


def between_job(params):
    lat, others, md, res, frames = params['lattice'], params['others'], params['max_dist'], params['resolution'], params.get('frames', 1)
    M = pool.lattice_matrices()[lat]

    def body():
        with Patches() as p:
            gr, gt, gtr = _patch_common(p, lat)
            from pymatgen.core import Lattice
            LP = LatticeProxy(Lattice(M))
            xs = [[sym_real(f'x_{t}_{c}', 0, 1, hi_strict=True) for c in range(3)] for t in range(frames)]
            species = ['Li'] + ['S'] * len(others)
            coords = S([[xs[t]] + [[core.rat(v) for v in o] for o in others] for t in range(frames)])
            tr = _traj(gt, species, coords, M)
            try:
                r12 = gr.radial_distribution_between_species(trajectory=tr, specie_1='Li', specie_2='S', max_dist=md, resolution=res)
                tr2 = _traj(gt, species, coords.copy(), M)
                r21 = gr.radial_distribution_between_species(trajectory=tr2, specie_1=['S'], specie_2=['Li'], max_dist=md, resolution=res)
            except Exception as e:
                event(f'exception:{type(e).__name__}', detail=str(e)[:200])
                return
            nb = int(round(md / res))
            edges = [F(repr(res)) * i for i in range(nb + 1)]
            prove('bins: x = left bin edges 0, res, ...', len(r12.x) == nb and all(core.rat(float(r12.x[i])) == edges[i] for i in range(nb)))
            vol = abs(np.linalg.det(np.asarray(M, dtype=float)))
            qs = [_dist2(LP, xs[t], [core.rat(v) for v in o]) for t in range(frames) for o in others]
            for b in range(nb):
                last = b == nb - 1
                cnt = core.ssum([ite(conj([q >= edges[b] ** 2, (q <= edges[b + 1] ** 2) if last else (q < edges[b + 1] ** 2)]), 1, 0) for q in qs])
                for (r, n2, tag) in ((r12, len(others), 'Li-S'), (r21, 1, 'S-Li')):
                    ideal = core.rat(n2 / vol * 4 / 3 * math.pi) * ((edges[b] + F(repr(res))) ** 3 - edges[b] ** 3)
                    got = r.y[b] * ideal
                    tol = F(1, 10 ** 9) * max(1, len(qs))
                    prove(f'y[b] x ideal-gas shell count = number of pairs in the shell ({tag})',
                          conj([got - cnt <= tol, cnt - got <= tol]))
            prove('labels', r12.label == 'Li-S' and r21.label == 'S-Li' and r12.state == '')
            sample(dict(lattice=lat, bins=nb, pairs=len(qs)))

    return symbolic_job(params, body, between_job_replay, timeout_ms=300000)


def between_job_replay(params, inputs):
    import gemdat.rdf as gr
    import gemdat.trajectory as gt
    lat, others, md, res, frames = params['lattice'], params['others'], params['max_dist'], params['resolution'], params.get('frames', 1)
    M = pool.lattice_matrices()[lat]
    xs = [[float(inputs[f'x_{t}_{c}']) for c in range(3)] for t in range(frames)]
    species = ['Li'] + ['S'] * len(others)
    coords = np.array([[xs[t]] + [list(o) for o in others] for t in range(frames)], dtype=float)
    tr = _traj(gt, species, coords, M)
    r12 = gr.radial_distribution_between_species(trajectory=tr, specie_1='Li', specie_2='S', max_dist=md, resolution=res)
    r21 = gr.radial_distribution_between_species(trajectory=_traj(gt, species, coords.copy(), M), specie_1=['S'], specie_2=['Li'], max_dist=md, resolution=res)
    nb = int(round(md / res))
    ds = [pool.min_image_dist(M, xs[t], o) for t in range(frames) for o in others]
    vol = abs(np.linalg.det(M))
    for d in ds:
        if min(abs(d - res * i) for i in range(nb + 1)) < 1e-7:
            return True, 'distance on a bin edge: outside the claim'
    for b in range(nb):
        cnt = sum(1 for d in ds if res * b <= d < res * (b + 1))
        for (r, n2, tag) in ((r12, len(others), 'Li-S'), (r21, 1, 'S-Li')):
            ideal = n2 / vol * 4 / 3 * math.pi * ((res * b + res) ** 3 - (res * b) ** 3)
            if abs(float(r.y[b]) * ideal - cnt) > 1e-6:
                return False, f'{tag} bin {b}: y*ideal={float(r.y[b]) * ideal} != count {cnt}; distances={ds} lattice={lat} x={xs}'
    return True, 'ok'


# --------------------------------------------------------------------------- per-state RDFs


SITE_LABELS = ['A', 'A', 'B']


def states_job(params):
    lat, T, md, res = params['lattice'], params['T'], params['max_dist'], params['resolution']
    M = pool.lattice_matrices()[lat]
    other = [0.5, 0.5, 0.5]
    other2 = [0.3, 0.2, 0.1]    # a second species whose symbol (Si) contains the first one (S)
    base = [0.1, 0.2, 0.3]

    def body():
        core.INDEX_RANGE = (-2_000_000, 4_000_000)
        with Patches() as p:
            gr, gt, gtr = _patch_common(p, lat)
            from pymatgen.core import Lattice, Structure
            LP = LatticeProxy(Lattice(M))
            xs = [[sym_real(f'x_{t}', 0, 1, hi_strict=True), core.rat(base[1]), core.rat(base[2])] for t in range(T)]
            st = S([[sym_int(f's_{t}', NOSITE, 2)] for t in range(T)])
            coords = S([[xs[t], [core.rat(v) for v in other], [core.rat(v) for v in other2]] for t in range(T)])
            tr = _traj(gt, ['Li', 'S', 'Si'], coords, M)
            placeholder = Structure(Lattice(M), ['Li', 'S', 'Si'], [base, other, other2])
            tr.get_structure = lambda i: placeholder
            sites = Structure(Lattice(M), ['Li'] * 3, [[0.1, 0.1, 0.1], [0.5, 0.1, 0.1], [0.1, 0.5, 0.5]], labels=SITE_LABELS)
            trans = gtr.Transitions.__new__(gtr.Transitions)
            trans.trajectory, trans.sites, trans.states = tr, sites, st
            try:
                trans.diff_trajectory = tr.filter('Li')
                if params.get('history'):
                    # read-only displacement queries made earlier on the same objects (they switch the internal representation)
                    trans.diff_trajectory.displacements
                    if params['history'] == 'both':
                        tr.displacements
                rdfs = gr.radial_distribution(transitions=trans, floating_specie='Li', max_dist=md, resolution=res)
            except Exception as e:
                event(f'exception:{type(e).__name__}', detail=str(e)[:200])
                return
            nb_edges = [F(repr(res)) * i for i in range(int(round(md / res)) + 1)]   # np.arange(0, md+res, res)
            nbin = len(nb_edges)
            lab = lambda s: ite(s == 0, 0, ite(s == 1, 0, ite(s == 2, 1, -1)))  # noqa: E731  label code: A=0, B=1, none=-1
            names = {0: 'A', 1: 'B'}
            # expected (state string) per frame, as a symbolic case distinction over label codes of (current, prev, next)
            prv, nxt = [], []
            for t in range(T):
                pv = NOSITE
                for u in range(t + 1):
                    pv = ite(st[u, 0] != NOSITE, st[u, 0], pv)
                nv = NOSITE
                for u in range(T - 1, t - 1, -1):
                    nv = ite(st[u, 0] != NOSITE, st[u, 0], nv)
                prv.append(pv)
                nxt.append(nv)
            total_by_symbol = {}
            for state, coll in rdfs.items():
                for r in coll:
                    prove('x = bin edges', len(r.y) == nbin)
                    total_by_symbol.setdefault(r.label, []).append((state, r))
            for sym, atom_coords in (('Li', None), ('S', other), ('Si', other2)):
                entries = total_by_symbol.get(sym, [])
                for t in range(T):
                    pass
                # per bin and state: count of frames whose state string is `state` and whose distance falls in the bin
                # the '~>' states (one side unknown) are not specified individually: only their total per (symbol, bin) is compared
                tilde = [r for st_, r in entries if st_.startswith('~>')]
                grouped = [(st_, [r]) for st_, r in entries if not st_.startswith('~>')] + ([('~>', tilde)] if tilde else [])
                for state, rs in grouped:
                    for b in range(nbin):
                        terms = []
                        for t in range(T):
                            cur, pv, nv = lab(st[t, 0]), lab(prv[t]), lab(nxt[t])
                            if state.startswith('@'):
                                code = {'A': 0, 'B': 1}[state[1:]]
                                in_state = cur == code
                            elif state.startswith('~>'):
                                in_state = conj([cur == -1, disj([pv == -1, nv == -1])])  # some side unknown
                            else:
                                a, bb = state.split('->')
                                in_state = conj([cur == -1, pv == {'A': 0, 'B': 1}[a], nv == {'A': 0, 'B': 1}[bb]])
                            if sym == 'Li':
                                q = 0  # distance of the diffusing atom to itself
                            else:
                                q = _dist2(LP, xs[t], [core.rat(v) for v in atom_coords])
                            # np.digitize(d, bins, right=True): bin b  <=>  edges[b-1] < d <= edges[b]
                            lo_ok = True if b == 0 else (q > nb_edges[b - 1] ** 2)
                            in_bin = conj([lo_ok, q <= nb_edges[b] ** 2])
                            terms.append(ite(conj([in_state, in_bin]), 1, 0))
                        prove("per-state RDF entry = number of (frame, atom pair) in that state and distance bin ('@X' only at sites "
                              "labelled X, 'X->Y' only between leaving X and reaching Y)", core.ssum([r.y[b] for r in rs]) == core.ssum(terms))
                # partition: every pair within the cut-off is counted in exactly one state and bin
                tot = core.ssum([core.ssum(list(r.y)) for _, r in entries])
                within = []
                for t in range(T):
                    q = 0 if sym == 'Li' else _dist2(LP, xs[t], [core.rat(v) for v in atom_coords])
                    within.append(ite(q <= nb_edges[-1] ** 2, 1, 0))
                prove('every pair within the cut-off is counted in exactly one state and one distance bin', tot == core.ssum(within))
            sample(dict(T=T, lattice=lat, states=sorted(rdfs)))

    sp = params.get('split')
    return symbolic_job(params, body, states_job_replay, timeout_ms=300000, split=tuple(sp) if sp else None)


def states_job_replay(params, inputs):
    import gemdat.rdf as gr
    import gemdat.trajectory as gt
    import gemdat.transitions as gtr
    from pymatgen.core import Lattice, Structure
    lat, T, md, res = params['lattice'], params['T'], params['max_dist'], params['resolution']
    M = pool.lattice_matrices()[lat]
    other = [0.5, 0.5, 0.5]
    other2 = [0.3, 0.2, 0.1]
    base = [0.1, 0.2, 0.3]
    xs = [[float(inputs[f'x_{t}']), base[1], base[2]] for t in range(T)]
    st = np.array([[int(inputs[f's_{t}'])] for t in range(T)])
    tr = _traj(gt, ['Li', 'S', 'Si'], np.array([[xs[t], other, other2] for t in range(T)]), M)
    sites = Structure(Lattice(M), ['Li'] * 3, [[0.1, 0.1, 0.1], [0.5, 0.1, 0.1], [0.1, 0.5, 0.5]], labels=SITE_LABELS)
    trans = gtr.Transitions.__new__(gtr.Transitions)
    trans.trajectory, trans.sites, trans.states, trans.diff_trajectory = tr, sites, st, tr.filter('Li')
    if params.get('history'):
        trans.diff_trajectory.displacements
        if params['history'] == 'both':
            tr.displacements
    rdfs = gr.radial_distribution(transitions=trans, floating_specie='Li', max_dist=md, resolution=res)
    nb = int(round(md / res)) + 1
    exp = {}
    for t in range(T):
        cur = st[t, 0]
        p = [st[u, 0] for u in range(t, -1, -1) if st[u, 0] != NOSITE]
        n = [st[u, 0] for u in range(t, T) if st[u, 0] != NOSITE]
        if cur != NOSITE:
            state = '@' + SITE_LABELS[cur]
        elif not p or not n:
            state = None  # '~>' states: name depends on which side is unknown, only membership is checked
        else:
            state = SITE_LABELS[p[0]] + '->' + SITE_LABELS[n[0]]
        for sym, oc in (('S', other), ('Si', other2)):
            d = pool.min_image_dist(M, xs[t], oc)
            if min(abs(d - res * i) for i in range(nb)) < 1e-7:
                return True, 'distance on a bin edge: outside the claim'
            if d <= res * (nb - 1) and state is not None:
                b = int(math.ceil(d / res - 1e-12))
                exp[(state, sym, b)] = exp.get((state, sym, b), 0) + 1
        if state is not None:
            exp[(state, 'Li', 0)] = exp.get((state, 'Li', 0), 0) + 1
        else:   # a '~>' state (one side unknown): only the total over the '~>' states is compared
            exp[('~>', 'Li', 0)] = exp.get(('~>', 'Li', 0), 0) + 1
            for sym, oc in (('S', other), ('Si', other2)):
                d = pool.min_image_dist(M, xs[t], oc)
                if d <= res * (nb - 1):
                    b = int(math.ceil(d / res - 1e-12))
                    exp[('~>', sym, b)] = exp.get(('~>', sym, b), 0) + 1
    got = {}
    for state, coll in rdfs.items():
        key = '~>' if state.startswith('~>') else state
        for r in coll:
            for b, v in enumerate(r.y):
                if v:
                    got[(key, r.label, b)] = got.get((key, r.label, b), 0) + int(v)
    if got != exp:
        return False, f'per-state counts {got} != expected {exp}; states={st.ravel().tolist()} x={[x[0] for x in xs]} lattice={lat}'
    return True, 'ok'


REPLAYS = dict(between_job=between_job_replay, states_job=states_job_replay)


def jobs(tier, seed):
    js = []
    o1 = [[0.5, 0.5, 0.5]]
    o2 = [[0.5, 0.5, 0.5], [0.9, 0.1, 0.2]]
    if tier == 'quick':
        bj = [('cubic5', o1, 2.0, 0.5, 1), ('cubic5', o2, 3.0, 1.0, 1), ('hex558', o1, 3.0, 1.0, 1)]
        sj = [('cubic5', 2, 2.0, 1.0)]
    else:
        bj = [('cubic5', o1, 2.0, 0.5, 1), ('cubic5', o2, 3.0, 1.0, 1), ('hex558', o1, 3.0, 1.0, 1), ('tric', o1, 3.0, 1.0, 1),
              ('cubic5', o1, 2.0, 1.0, 2), ('rhomb60', o1, 3.0, 1.5, 1)]
        sj = [('cubic5', 2, 2.0, 1.0), ('hex558', 2, 3.0, 1.5), ('tric', 2, 3.0, 1.5)]
    for lat, oth, md, res, fr in bj:
        js.append(dict(name=f'between_{lat}_{len(oth)}other_md{md}_res{res}_F{fr}', fn='between_job',
                       params=dict(lattice=lat, others=oth, max_dist=md, resolution=res, frames=fr)))
    D = 2   # each states job is explored as 2^D sub-jobs (split on the first D free decisions)
    for lat, T, md, res in sj:
        for i in range(2 ** D):
            js.append(dict(name=f'states_{lat}_T{T}_part{i}of{2 ** D}', fn='states_job',
                           params=dict(lattice=lat, T=T, max_dist=md, resolution=res, split=[i, D])))
    # ('both' = also the full trajectory's displacements first: exploration works but the solver returns unknown on the
    # re-wrapped coordinates, so it is not part of any tier)
    for lat, T, md, res, h in [('cubic5', 2, 2.0, 1.0, 'diff')]:
        for i in range(2 ** D):
            js.append(dict(name=f'states_{lat}_T{T}_after_displacements_{h}_part{i}of{2 ** D}', fn='states_job',
                           params=dict(lattice=lat, T=T, max_dist=md, resolution=res, history=h, split=[i, D])))
    return js
