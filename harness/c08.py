"""C08 - density volumes conserve every sample and use a consistent voxel mapping.

exec (unmodified): gemdat.volume.trajectory_to_volume, Volume.__post_init__/voxel_size/
voxel_to_frac_coords/frac_coords_to_voxel.
"""
from __future__ import annotations

from fractions import Fraction as F

import numpy as np

from symgem import core, fp, pool
from symgem.core import assume, conj, event, ite, prove, prove_isolated, sample, sfloor_int, sym_int, sym_real
from symgem.runner import symbolic_job
from symgem.symnp import Patches, S

PROPERTY = 'C08'

BOUNDS = {
    'quick': 'REAL mode: k<=2 samples with coordinates any reals in [0,1) on ortho457 with resolutions {4, 2.5, 2, 1.7} (grids up to 2x2x4); '
             'edge-length bound for 9 resolutions x 3 lattices and for every (symbolic) resolution in (L/8, L] on ortho457 [+ tric, hex558 thorough]; FP mode (binary64): voxel round trip for every grid size 1<=n<=63 and every 0<=v<n (cvc5); count_width: one voxel collecting any number c <= 2^21 [2^23 thorough] of samples through the counter array GEMDAT allocates (machine dtype modelled with wrap-around casts)',
    'thorough': 'k<=3 samples, grids up to 3x4x5 incl. triclinic lattice lengths; FP round trip for every n<=511 (cvc5, 8 ranges of n)',
}
OUTSIDE = ['grids / sample counts above the bound', 'per-voxel counts above 2^21 [2^23] (a replay needs that many frames)', 'binary64 rounding of the bin edges np.linspace produces (REAL mode uses exact k/n edges)',
           'voxel round trip for n > 511 (cvc5 needs > 10 min per 256-wide range beyond)']
ASSUMPTIONS = [
    'positions handed to trajectory_to_volume lie in [0,1) (C01)',
    'np.linspace(0,1,n) edges read as the exact rationals k/(n-1)',
    'FP: int64 -> float64 conversion, +, /, * round to nearest even; astype(int) truncates toward zero (numpy semantics)',
]
STUBS = ['np.digitize / np.unique(axis=0) / symbolic fancy assignment / np.linspace (symgem.symnp)',
         'Volume.dims overwritten with symbolic int64 grid sizes for the FP round trip']


class _FakeTraj:
    def __init__(self, positions, M):
        self.positions = positions
        self._M = M

    def get_lattice(self):
        from pymatgen.core import Lattice
        return Lattice(self._M)


def density_job(params):
    k, lat, res = params['k'], params['lattice'], params['resolution']
    M = pool.lattice_matrices()[lat]

    def body():
        import gemdat.volume as gv
        with Patches() as p:
            p.np(gv)
            x = S([[[sym_real(f'x_{s}_{c}', 0, 1, hi_strict=True) for c in range(3)]] for s in range(k)])
            try:
                vol = gv.trajectory_to_volume(_FakeTraj(x, M), resolution=res)
            except Exception as e:
                event(f'exception:{type(e).__name__}', detail=str(e)[:200])
                return
            data = np.asarray(vol.data, dtype=object)
            from pymatgen.core import Lattice
            L = Lattice(M).lengths
            n = [int(Li // res) for Li in L]
            prove('grid size = floor(L / resolution) per axis', tuple(data.shape) == tuple(n))
            prove('volume.dims = data.shape', tuple(vol.dims) == tuple(data.shape))
            if tuple(data.shape) != tuple(n):
                return
            prove('voxel sum = frames x atoms', core.ssum(data.ravel().tolist()) == k)
            for v in np.ndindex(data.shape):
                cnt = core.ssum([ite(conj([sfloor_int(x[s, 0, c] * n[c]) == v[c] for c in range(3)]), 1, 0) for s in range(k)])
                prove('voxel count = number of samples with floor(x * n) = voxel index', data[v] == cnt)
            for c in range(3):
                edge = L[c] / n[c]
                prove('voxel edge >= resolution and < 2 x resolution', res <= edge + 1e-12 and edge < 2 * res)
                prove('voxel_size = L / n', abs(float(vol.voxel_size[c]) - edge) < 1e-9)
            sample(dict(k=k, lattice=lat, resolution=res, grid=list(data.shape)))

    return symbolic_job(params, body, density_job_replay)


def density_job_replay(params, inputs):
    import gemdat.volume as gv
    k, lat, res = params['k'], params['lattice'], params['resolution']
    M = pool.lattice_matrices()[lat]
    x = np.array([[[float(inputs[f'x_{s}_{c}']) for c in range(3)]] for s in range(k)])
    vol = gv.trajectory_to_volume(_FakeTraj(x, M), resolution=res)
    from pymatgen.core import Lattice
    L = Lattice(M).lengths
    n = [int(Li // res) for Li in L]
    if tuple(vol.data.shape) != tuple(n):
        return False, f'grid {vol.data.shape} != floor(L/res) {n}'
    exp = np.zeros(n, dtype=int)
    for s in range(k):
        for c in range(3):
            v = inputs[f'x_{s}_{c}']
            xf = F(v) if not isinstance(v, float) else F(repr(v))
            if (xf * n[c]).denominator == 1 and F(float(xf)) != xf:
                # the sample sits exactly on a voxel face that binary64 cannot represent: the float run is decided by
                # rounding of the sample and of the bin edge (stated outside the claim)
                return True, 'sample on a voxel face not representable in binary64: outside the claim'
    for s in range(k):
        # exact floor(x * n) with rationals (the solver's model values are short binary fractions)
        idx = tuple(int(F(inputs[f'x_{s}_{c}']) * n[c]) if not isinstance(inputs[f'x_{s}_{c}'], float)
                    else int(np.floor(inputs[f'x_{s}_{c}'] * n[c])) for c in range(3))
        exp[idx] += 1
    if vol.data.sum() != k or not (vol.data == exp).all():
        return False, f'volume {vol.data.tolist()} != floor-binned counts {exp.tolist()} for x={x.tolist()} grid={n}'
    return True, 'ok'


class _Stored(np.ndarray):
    """Object array standing for an ndarray of a fixed machine dtype: writes go through the dtype's cast (integers wrap)."""
    _store_dtype = None

    def __setitem__(self, key, value):
        dt = self._store_dtype
        vals = np.asarray(value, dtype=object)
        out = np.empty(vals.shape, dtype=object)
        for ix in np.ndindex(vals.shape):
            v = vals[ix]
            if dt.kind == 'u':
                v = v % (2 ** (8 * dt.itemsize))
            elif dt.kind == 'i':
                h = 2 ** (8 * dt.itemsize - 1)
                v = (v + h) % (2 * h) - h
            elif dt.kind == 'f' and dt.itemsize >= 8:
                pass  # binary64 holds every integer below 2**53 exactly (counts are bounded far below)
            else:
                raise core.Inconclusive(f'storage dtype {dt} not modelled')
            out[ix] = v
        np.ndarray.__setitem__(self, key, out if out.shape else out[()])


def count_width_job(params):
    """The per-voxel counter holds every count up to the bound: the count produced by np.unique is a symbolic integer and the
    array GEMDAT allocates for the volume is modelled with the wrap-around cast of the dtype it asks for."""
    lat, res, cmax = params['lattice'], params['resolution'], params['cmax']
    M = pool.lattice_matrices()[lat]

    def body():
        import gemdat.volume as gv
        c = sym_int('c', 1, cmax)
        seen = {}

        def zeros(shape, dtype=float, **k):
            a = np.zeros(shape, dtype=object).view(_Stored)
            a._store_dtype = np.dtype(dtype)
            seen['dtype'] = str(np.dtype(dtype))
            return a

        def unique(ar, *a, **k):
            r = np.unique(np.asarray(ar).astype(int), *a, **k)  # concrete sample: plain integers
            if not k.get('return_counts'):
                return r
            vals, counts = r
            if len(counts) != 1:
                raise core.Inconclusive('count_width_job expects one occupied voxel')
            return vals, S([c])  # c identical samples instead of one

        with Patches() as p:
            p.np(gv, extra=dict(zeros=zeros, unique=unique))
            x = np.array([[[0.3, 0.3, 0.3]]])
            try:
                vol = gv.trajectory_to_volume(_FakeTraj(x, M), resolution=res)
            except Exception as e:
                event(f'exception:{type(e).__name__}', detail=str(e)[:200])
                return
            data = np.asarray(vol.data, dtype=object)
            prove('voxel sum = frames x atoms when one voxel collects c samples (counter does not wrap)',
                  core.ssum(data.ravel().tolist()) == c)
            sample(dict(lattice=lat, resolution=res, counter_dtype=seen.get('dtype')))

    return symbolic_job(params, body, count_width_job_replay)


def count_width_job_replay(params, inputs):
    import gemdat.volume as gv
    lat, res = params['lattice'], params['resolution']
    M = pool.lattice_matrices()[lat]
    c = int(inputs.get('c', 1))
    x = np.full((c, 1, 3), 0.3)
    vol = gv.trajectory_to_volume(_FakeTraj(x, M), resolution=res)
    tot = int(np.asarray(vol.data).sum(dtype=object)) if vol.data.dtype == object else int(vol.data.astype(np.int64).sum())
    if tot != c:
        return False, f'{c} frames of one atom at (0.3,0.3,0.3): voxel sum {tot} != {c} (counter dtype {vol.data.dtype})'
    return True, 'ok'


def edges_job(params):
    """voxel edge bounds for many (lattice, resolution) pairs: all concrete, one fixed sample."""
    import gemdat.volume as gv
    from pymatgen.core import Lattice

    def body():
        checked = 0
        for lat in params['lattices']:
            M = pool.lattice_matrices()[lat]
            L = Lattice(M).lengths
            for res in params['resolutions']:
                if res > min(L):
                    continue
                vol = gv.trajectory_to_volume(_FakeTraj(np.array([[[0.5, 0.5, 0.5]]]), M), resolution=res)
                for c in range(3):
                    edge = float(vol.voxel_size[c])
                    prove('voxel edge >= resolution and < 2 x resolution', res <= edge + 1e-12 and edge < 2 * res,
                          detail=dict(lattice=lat, resolution=res, edge=edge))
                prove('voxel sum = 1', int(vol.data.sum()) == 1)
                checked += 1
        sample(dict(configurations=checked))

    return symbolic_job(params, body, None)


def resolution_job(params):
    """Voxel edge bounds for *every* resolution in (L/8, L_min]: the resolution is symbolic; the grid size
    int(1 + L // resolution) is concretised by forking over its feasible values."""
    lat = params['lattice']
    M = pool.lattice_matrices()[lat]

    def body():
        import gemdat.volume as gv
        from pymatgen.core import Lattice
        with Patches() as p:
            p.np(gv)
            L = Lattice(M).lengths
            res = sym_real('resolution', min(L) / 8, min(L), lo_strict=True)
            try:
                vol = gv.trajectory_to_volume(_FakeTraj(np.array([[[0.5, 0.25, 0.75]]]), M), resolution=res)
            except Exception as e:
                event(f'exception:{type(e).__name__}', detail=str(e)[:200])
                return
            dims = tuple(int(v) for v in vol.data.shape)
            for c in range(3):
                edge = core.rat(float(L[c])) / dims[c]
                prove('voxel edge >= resolution (every resolution not exceeding the cell lengths)', edge >= res)
                prove('voxel edge < 2 x resolution', edge < 2 * res)
                prove('voxel_size = L / n', abs(float(vol.voxel_size[c]) - float(L[c]) / dims[c]) < 1e-9)
            prove('the single sample is counted once', core.ssum(np.asarray(vol.data, dtype=object).ravel().tolist()) == 1)
            sample(dict(lattice=lat, grid=list(dims)))

    return symbolic_job(params, body, resolution_job_replay)


def resolution_job_replay(params, inputs):
    import gemdat.volume as gv
    from pymatgen.core import Lattice
    M = pool.lattice_matrices()[params['lattice']]
    res = float(inputs['resolution'])
    vol = gv.trajectory_to_volume(_FakeTraj(np.array([[[0.5, 0.25, 0.75]]]), M), resolution=res)
    L = Lattice(M).lengths
    for c in range(3):
        edge = L[c] / vol.data.shape[c]
        if not (res <= edge * (1 + 1e-12) and edge < 2 * res):
            return False, f'axis {c}: voxel edge {edge} for resolution {res} (L={L[c]}, n={vol.data.shape[c]})'
    return int(vol.data.sum()) == 1, 'sample count'


# --------------------------------------------------------------------------- FP: voxel <-> fractional round trip


def roundtrip_job(params):
    lo, hi = params['n_lo'], params['n_hi']

    def body():
        import gemdat.volume as gv
        with Patches() as p:
            p.np(gv)
            n = fp.sym_i64('n', lo, hi)
            v = fp.sym_i64('v', 0, hi)
            assume(v < n)
            vol = gv.Volume(data=np.zeros((1, 1, 1)), lattice=None)
            vol.dims = (n, n, n)
            frac = vol.voxel_to_frac_coords([v, v, v])
            back = vol.frac_coords_to_voxel(frac)
            core.prove_cvc5('float64: frac_coords_to_voxel(voxel_to_frac_coords(v)) = v', back[0] == v,
                            given=[v < n], timeout_ms=params.get('timeout_ms', 600000))
            f0 = frac[0]
            core.prove_cvc5('float64: voxel centre lies strictly inside (0,1)', conj([f0 > 0.0, f0 < 1.0]), given=[v < n],
                            timeout_ms=params.get('timeout_ms', 600000))
            sample(dict(n_lo=lo, n_hi=hi))

    return symbolic_job(params, body, roundtrip_job_replay, timeout_ms=600000)


def roundtrip_job_replay(params, inputs):
    import gemdat.volume as gv
    n, v = int(inputs['n']), int(inputs['v'])
    vol = gv.Volume(data=np.zeros((n, 1, 1)), lattice=None)
    vol.dims = (n, n, n)
    back = vol.frac_coords_to_voxel(vol.voxel_to_frac_coords([v, v, v]))
    return int(back[0]) == v, f'n={n} v={v}: round trip gives {int(back[0])}'


REPLAYS = dict(count_width_job=count_width_job_replay, density_job=density_job_replay, roundtrip_job=roundtrip_job_replay, resolution_job=resolution_job_replay)


def jobs(tier, seed):
    js = []
    if tier == 'quick':
        dj = [(1, 'ortho457', 4.0), (2, 'ortho457', 2.5), (2, 'ortho457', 2.0), (2, 'ortho457', 1.7), (1, 'tric', 2.5)]
        rt = [(1, 63)]
    else:
        dj = [(k, 'ortho457', r) for k in (1, 2, 3) for r in (4.0, 2.5, 2.0, 1.7)] + [(2, 'tric', 2.5), (2, 'hex558', 2.4), (3, 'ortho457', 1.3)]
        rt = [(1, 63), (64, 127), (128, 191), (192, 255), (256, 319), (320, 383), (384, 447), (448, 511)]
    for k, lat, r in dj:
        js.append(dict(name=f'density_k{k}_{lat}_res{r}', fn='density_job', params=dict(k=k, lattice=lat, resolution=r)))
    js.append(dict(name='voxel_edges', fn='edges_job',
                   params=dict(lattices=['ortho457', 'tric', 'hex558'], resolutions=[0.2, 0.3, 0.7, 1.0, 1.3, 1.7, 2.0, 2.5, 3.9])))
    for lat in (['ortho457'] if tier == 'quick' else ['ortho457', 'tric', 'hex558']):
        js.append(dict(name=f'resolution_symbolic_{lat}', fn='resolution_job', params=dict(lattice=lat)))
    js.append(dict(name='count_width', fn='count_width_job', params=dict(lattice='ortho457', resolution=2.0, cmax=2 ** 21 if tier == 'quick' else 2 ** 23)))
    for lo, hi in rt:
        js.append(dict(name=f'roundtrip_n{lo}_{hi}', fn='roundtrip_job', params=dict(n_lo=lo, n_hi=hi)))
    return js
