"""C10 - optimal and percolating paths are valid, correctly reported and cost-minimal.

exec (unmodified): gemdat.path.free_energy_graph, optimal_path (all 5 methods), optimal_percolating_path,
Pathway.total_energy / wrapped_sites / frac_sites, gemdat.volume.FreeEnergyVolume.free_energy_graph /
optimal_path.  networkx.shortest_path is replaced by its contract (see STUBS); on the smallest grid the real
networkx code is executed symbolically as a cross-check of that contract (thorough tier).
"""
from __future__ import annotations

import itertools
from fractions import Fraction as F

import numpy as np

from symgem import core, transc
from symgem.core import assume, conj, disj, event, implies, ite, prove, sample, sym_int, sym_real
from symgem.runner import open_findings, symbolic_job
from symgem.symnp import Patches, S

PROPERTY = 'C10'
THR = 5

BOUNDS = {
    'quick': 'grids (2,2,1), (3,2,1), (1,2,3) [unequal axes]: every voxel either blocked or passable with energy any real in [0,1] '
             '(threshold 5), start at voxel 0 (translation symmetry) and every stop voxel, methods dijkstra / bellman-ford / dijkstra-exp / simple / minmax-energy, faces-only and '
             'diagonal; percolation on (2,1,1), (1,2,1), (1,1,2), (1,1,1) along x, y, z, xy with 1-2 peaks; graph structure on (2,2,2), (3,2,1); '
             'wrapped_sites / frac_sites for arbitrary integer voxel coordinates in [-50,50] and dims in [1,9]; '
             '*_after_other_graph jobs: the same FreeEnergyVolume object built a graph with the opposite neighbourhood setting first',
    'thorough': 'additionally (3,2,1) diagonal, (2,3,1) and (2,2,2) faces-only; graph structure on (3,3,1), (2,3,2) with blocked voxels and on (2,3,4), (4,3,2) all passable; real networkx Dijkstra executed symbolically on (2,2,1) faces-only',
}
OUTSIDE = ['optimal_n_paths, path_over_structure, total_length', 'grids whose number of simple paths exceeds ~2000 (contract enumerates them)',
           'libm exp (EXP uninterpreted, strictly monotone, positive)']
ASSUMPTIONS = [
    'networkx.shortest_path contract: returns some minimum-weight simple source-target path of the given graph under the given edge '
    'attribute (hop count for weight=None); raises NodeNotFound / NetworkXNoPath as documented; unknown methods raise ValueError',
    'np.exp -> uninterpreted strictly monotone positive EXP; energies are exact reals',
]
STUBS = ['networkx.shortest_path -> contract over all simple paths of the concrete graph structure (symgem, harness.c10)',
         'np.exp (symgem.transc)']

KF_CORNER = 'C10-diagonal-graph-misses-corner-moves'
KF_MINMAX = 'C10-minmax-energy-never-runs'

ALL26 = [m for m in itertools.product((-1, 0, 1), repeat=3) if any(m)]
FACES = [m for m in ALL26 if sum(abs(v) for v in m) == 1]
MISSING = [(1, 1, -1), (-1, -1, 1), (1, -1, 1), (-1, 1, -1)]
IMPLEMENTED_DIAG = [m for m in ALL26 if m not in MISSING]


def adjacency(shape, moves):
    adj = {}
    for u in np.ndindex(shape):
        adj[u] = set()
        for m in moves:
            v = tuple((u[i] + m[i]) % shape[i] for i in range(3))
            if v != u:
                adj[u].add(v)
    return adj


def simple_paths(adj, s, t, limit=20000):
    out = []
    stack = [(s, [s])]
    while stack:
        u, path = stack.pop()
        if u == t:
            out.append(path)
            if len(out) > limit:
                raise core.Inconclusive('too many simple paths for the contract')
            continue
        for v in sorted(adj[u]):
            if v not in path:
                stack.append((v, path + [v]))
    return out


class NxProxy:
    """networkx with shortest_path replaced by its contract."""

    def __init__(self, nx):
        self._nx = nx
        self.calls = 0

    def __getattr__(self, n):
        return getattr(self._nx, n)

    def shortest_path(self, G, source=None, target=None, weight=None, method='dijkstra'):
        nx = self._nx
        self.calls += 1
        if method not in ('dijkstra', 'bellman-ford'):
            raise ValueError(f'method not supported: {method}')
        if source not in G:
            raise nx.NodeNotFound(f'Source {source} is not in G')
        if target not in G:
            raise nx.NodeNotFound(f'Target {target} is not in G')
        if source == target:
            return [source]
        paths = list(nx.all_simple_paths(G, source, target))
        if not paths:
            raise nx.NetworkXNoPath(f'No path between {source} and {target}.')

        def cost(p):
            if weight is None:
                return len(p) - 1
            return core.ssum([G[u][v][weight] for u, v in zip(p, p[1:])])
        costs = [cost(p) for p in paths]
        for i, p in enumerate(paths):
            if bool(conj([costs[i] <= c for j, c in enumerate(costs) if j != i])):
                return list(p)
        raise core.Inconclusive('shortest_path contract: no minimal path found')


BLOCKED = 20


def _energies(shape, free=False):
    """Voxel energies: either any real in [0,10] (free=True), or a passable voxel with energy in [0,1] / a blocked voxel
    (energy 20 >= threshold 5) chosen by a symbolic flag.  With passable energies <= 1 every edge has exp(weight) < threshold,
    so the graph builder does not fork on the exponential cap (that branch is covered by the free=True graph jobs)."""
    from symgem.core import sym_bool
    out = []
    for idx in np.ndindex(shape):
        tag = '_'.join(map(str, idx))
        if free == 'passable':
            out.append(sym_real('e_' + tag, 0, 1))
        elif free:
            out.append(sym_real('e_' + tag, 0, 10))
        else:
            out.append(ite(sym_bool('blocked_' + tag), BLOCKED, sym_real('e_' + tag, 0, 1)))
    return S(out).reshape(shape)


def _conc_energies(shape, inputs):
    def val(idx):
        tag = '_'.join(map(str, idx))
        if inputs.get('blocked_' + tag, False):
            return float(BLOCKED)
        return float(inputs['e_' + tag])
    return np.array([val(idx) for idx in np.ndindex(shape)]).reshape(shape)


def _patch(p):
    import gemdat.path as gp
    import gemdat.volume as gv
    import networkx as nx
    p.np(gp, gv)
    proxy = NxProxy(nx)
    p.set(gp, 'nx', proxy)
    return gp, gv, proxy


# --------------------------------------------------------------------------- graph structure


def graph_job(params):
    shape, diagonal = tuple(params['shape']), params['diagonal']
    known = KF_CORNER in open_findings(PROPERTY)

    def body():
        with Patches() as p:
            gp, gv, _ = _patch(p)
            p.set(transc, 'PAIRWISE', False)  # graph structure only compares identical EXP terms
            e = _energies(shape, free=params.get('free', False))
            G = gp.free_energy_graph(e, max_energy_threshold=THR, diagonal=diagonal)
            nodes = set(G.nodes)
            for idx in np.ndindex(shape):
                ok = conj([e[idx] >= 0, e[idx] < THR])
                prove('nodes = voxels below the energy threshold', ok if idx in nodes else ~ok if core.is_sym(ok) else not ok)
                if idx in nodes:
                    prove('node carries its free energy', G.nodes[idx]['energy'] == e[idx])
            impl = adjacency(shape, IMPLEMENTED_DIAG if diagonal else FACES)
            full = adjacency(shape, ALL26 if diagonal else FACES)
            edges = {frozenset((a, b)) for a, b in G.edges if a != b}
            for a, b in G.edges:
                prove('edges join nodes', a in nodes and b in nodes)
                if a != b:
                    prove('edge joins neighbouring voxels of the periodic grid (per-axis wrap)', b in full[a])
                    w = G[a][b]['weight']
                    prove('edge weight = mean of the endpoint energies', w == (e[a] + e[b]) / 2)
                    wexp = G[a][b]['weight_exp']
                    ex = transc.sexp((e[a] + e[b]) / 2)
                    prove('exponential weight = min(exp(weight), threshold)', wexp == ite(ex < THR, ex, THR))
            for a in nodes:
                for b in full[a]:
                    if b in nodes:
                        only_missing = b not in impl[a]
                        prove('all neighbouring node pairs are connected (face, edge and corner neighbours)',
                              frozenset((a, b)) in edges, known=(KF_CORNER, only_missing) if (known and diagonal) else None)
            sample(dict(shape=list(shape), diagonal=diagonal, nodes=len(nodes), edges=len(edges)))

    return symbolic_job(params, body, graph_job_replay,
                        in_known_class=(lambda m: True) if (known and diagonal and min(shape) > 1) else None)


def graph_job_replay(params, inputs):
    import gemdat.path as gp
    shape, diagonal = tuple(params['shape']), params['diagonal']
    e = _conc_energies(shape, inputs)
    G = gp.free_energy_graph(e, max_energy_threshold=THR, diagonal=diagonal)
    nodes = {idx for idx in np.ndindex(shape) if 0 <= e[idx] < THR}
    if set(G.nodes) != nodes:
        return False, f'nodes {sorted(G.nodes)} != voxels below threshold {sorted(nodes)}; e={e.tolist()}'
    full = adjacency(shape, ALL26 if diagonal else FACES)
    exp_edges = {frozenset((a, b)) for a in nodes for b in full[a] if b in nodes}
    got = {frozenset((a, b)) for a, b in G.edges if a != b}
    if got - exp_edges:
        return False, f'edges between non-neighbours: {[sorted(x) for x in got - exp_edges]}'
    if exp_edges - got:
        return False, f'neighbouring voxels not connected: {[sorted(x) for x in exp_edges - got][:4]} shape={shape} diagonal={diagonal}'
    for a, b in G.edges:
        if a != b and abs(G[a][b]['weight'] - 0.5 * (e[a] + e[b])) > 1e-12:
            return False, f'weight of edge {a}-{b}'
    return True, 'ok'


# --------------------------------------------------------------------------- optimal_path


def _criterion(method, e, path, G=None):
    if method in ('dijkstra', 'bellman-ford'):
        return core.ssum([(e[a] + e[b]) / 2 for a, b in zip(path, path[1:])])
    if method == 'dijkstra-exp':
        tot = 0
        for a, b in zip(path, path[1:]):
            ex = transc.sexp((e[a] + e[b]) / 2)
            tot = tot + ite(ex < THR, ex, THR)
        return tot
    if method == 'simple':
        return len(path) - 1
    if method == 'minmax-energy':
        return core.smax([e[v] for v in path])
    raise ValueError(method)


def path_job(params):
    shape, diagonal, method = tuple(params['shape']), params['diagonal'], params['method']
    fnd = open_findings(PROPERTY)
    voxels = list(np.ndindex(shape))

    def body():
        import networkx as nx
        with Patches() as p:
            gp, gv, proxy = _patch(p)
            e = _energies(shape)
            # the periodic grid is translation invariant and the energies are arbitrary: start at voxel 0 w.l.o.g.
            si = int(sym_int('start', 0, 0))
            ti = int(sym_int('stop', 1, len(voxels) - 1))
            s, t = voxels[si], voxels[ti]
            fe = gv.FreeEnergyVolume(data=e, lattice=None)
            if params.get('history'):
                # the same volume object was asked for a graph with the opposite neighbourhood before: must not matter
                fe.free_energy_graph(max_energy_threshold=THR, diagonal=not diagonal)
            G = fe.free_energy_graph(max_energy_threshold=THR, diagonal=diagonal)
            full = adjacency(shape, ALL26 if diagonal else FACES)
            impl = adjacency(shape, IMPLEMENTED_DIAG if diagonal else FACES)
            ok = {v: conj([e[v] >= 0, e[v] < THR]) for v in voxels}
            allp = simple_paths(full, s, t)
            try:
                path = fe.optimal_path(F_graph=G, start=list(s), stop=np.array(t), method=method)
            except nx.NodeNotFound:
                prove('NodeNotFound only when start or stop is blocked', disj([~ok[s] if core.is_sym(ok[s]) else not ok[s],
                                                                               ~ok[t] if core.is_sym(ok[t]) else not ok[t]]))
                return
            except nx.NetworkXNoPath:
                implp = simple_paths(impl, s, t)
                prove('NetworkXNoPath only when no admissible path exists',
                      conj([~conj([ok[v] for v in q]) for q in implp]))
                return
            except Exception as ex:
                event(f'exception:{type(ex).__name__}', detail=str(ex)[:200])
                return
            sites = [tuple(int(c) for c in v) for v in path.sites]
            prove('path starts and ends at the requested voxels', sites[0] == s and sites[-1] == t)
            prove('path visits no voxel twice', len(set(sites)) == len(sites))
            prove('path dims = grid shape', tuple(path.dims) == shape)
            for a, b in zip(sites, sites[1:]):
                prove('consecutive voxels are neighbours of the periodic grid', b in full[a])
            for v in sites:
                prove('every voxel of the path is below the energy threshold', ok[v])
            prove('reported energies are the voxel free energies',
                  len(path.energy) == len(sites) and conj([path.energy[i] == e[v] for i, v in enumerate(sites)]))
            prove('total_energy = sum of the reported energies', path.total_energy == core.ssum([e[v] for v in sites]))
            mine = _criterion(method, e, sites)
            kf_minmax = (KF_MINMAX, True) if (method == 'minmax-energy' and KF_MINMAX in fnd) else None
            implp = simple_paths(impl, s, t)
            # for a listed finding the witness is asked to violate the bound by a margin, so that the float replay reproduces it
            slack = F(1, 100) if kf_minmax else 0
            prove('no admissible path (implemented neighbourhood) has a lower cost under the selected criterion',
                  conj([implies(conj([ok[v] for v in q]), mine <= _criterion(method, e, q) + slack) for q in implp]), known=kf_minmax)
            if diagonal and len(allp) != len(implp):
                kf = (KF_CORNER, True) if KF_CORNER in fnd else None
                prove('no admissible path (face, edge or corner steps) has a lower cost under the selected criterion',
                      conj([implies(conj([ok[v] for v in q]), mine <= _criterion(method, e, q) + (F(1, 100) if (kf_minmax or kf) else 0))
                            for q in allp]),
                      known=kf_minmax or kf)
            # wrapped / fractional sites of the returned path lie inside the grid
            ws = path.wrapped_sites()
            fs = path.frac_sites()
            for i, v in enumerate(sites):
                prove('wrapped site = site modulo the grid size per axis', tuple(ws[i]) == tuple(v[c] % shape[c] for c in range(3)))
                prove('fractional site inside [0,1)', all(0 <= float(x) < 1 for x in fs[i]))
            sample(dict(shape=list(shape), method=method, start=list(s), stop=list(t), path=[list(v) for v in sites]))

    kc = (lambda m: True) if ((method == 'minmax-energy' and KF_MINMAX in fnd) or (diagonal and KF_CORNER in fnd and min(shape) > 1)) else None
    return symbolic_job(params, body, path_job_replay, in_known_class=kc)


def _conc_cost(method, e, path):
    import math
    if method in ('dijkstra', 'bellman-ford'):
        return sum(0.5 * (e[a] + e[b]) for a, b in zip(path, path[1:]))
    if method == 'dijkstra-exp':
        return sum(min(math.exp(0.5 * (e[a] + e[b])), THR) for a, b in zip(path, path[1:]))
    if method == 'simple':
        return len(path) - 1
    return max(e[v] for v in path)


def path_job_replay(params, inputs):
    import gemdat.volume as gv
    import networkx as nx
    shape, diagonal, method = tuple(params['shape']), params['diagonal'], params['method']
    voxels = list(np.ndindex(shape))
    e = _conc_energies(shape, inputs)
    s, t = voxels[int(inputs['start'])], voxels[int(inputs['stop'])]
    if s == t:
        return True, 'start == stop'
    fe = gv.FreeEnergyVolume(data=e, lattice=None)
    if params.get('history'):
        fe.free_energy_graph(max_energy_threshold=THR, diagonal=not diagonal)
    G = fe.free_energy_graph(max_energy_threshold=THR, diagonal=diagonal)
    full = adjacency(shape, ALL26 if diagonal else FACES)
    okv = {v: 0 <= e[v] < THR for v in voxels}
    adm = [q for q in simple_paths(full, s, t) if all(okv[v] for v in q)]
    desc = f'shape={shape} diagonal={diagonal} method={method} start={s} stop={t} e={e.tolist()}'
    try:
        path = fe.optimal_path(F_graph=G, start=s, stop=t, method=method)
    except nx.NodeNotFound:
        return (not okv[s] or not okv[t]), f'NodeNotFound; {desc}'
    except nx.NetworkXNoPath:
        return (not adm), f'NetworkXNoPath although admissible paths exist: {adm[:2]}; {desc}'
    sites = [tuple(int(c) for c in v) for v in path.sites]
    if sites[0] != s or sites[-1] != t or any(b not in full[a] for a, b in zip(sites, sites[1:])) or not all(okv[v] for v in sites):
        return False, f'invalid path {sites}; {desc}'
    if any(abs(float(en) - e[v]) > 1e-12 for en, v in zip(path.energy, sites)) or len(path.energy) != len(sites):
        return False, f'reported energies {path.energy} != voxel energies; {desc}'
    mine = _conc_cost(method, e, sites)
    best = min(_conc_cost(method, e, q) for q in adm)
    if mine > best + 1e-9:
        q = min(adm, key=lambda q: _conc_cost(method, e, q))
        return False, f'path {sites} costs {mine} but admissible path {q} costs {best}; {desc}'
    if [tuple(w) for w in path.wrapped_sites()] != [tuple(v[c] % shape[c] for c in range(3)) for v in sites]:
        return False, f'wrapped_sites {path.wrapped_sites()}; {desc}'
    fs = np.asarray(path.frac_sites())
    if fs.min() < 0 or fs.max() >= 1:
        return False, f'frac_sites outside [0,1): {fs.tolist()}; {desc}'
    return True, 'ok'


# --------------------------------------------------------------------------- percolating path


def percolate_job(params):
    shape, percolate, npeaks = tuple(params['shape']), params['percolate'], params['npeaks']
    voxels = list(np.ndindex(shape))
    dirs = [1 if c in percolate else 0 for c in 'xyz']
    tshape = tuple(shape[i] * (1 + dirs[i]) for i in range(3))
    fnd = open_findings(PROPERTY)

    def body():
        with Patches() as p:
            gp, gv, proxy = _patch(p)
            e = _energies(shape)
            peaks_i = [int(sym_int(f'peak_{k}', 0, len(voxels) - 1)) for k in range(npeaks)]
            peaks = np.array([voxels[i] for i in peaks_i])
            fe = gv.FreeEnergyVolume(data=e, lattice=None)
            try:
                path = fe.optimal_percolating_path(peaks=peaks, percolate=percolate)
            except Exception as ex:
                event(f'exception:{type(ex).__name__}', detail=str(ex)[:200])
                return
            tiled = S(np.tile(np.asarray(e), tuple(1 + d for d in dirs)))
            full = adjacency(tshape, ALL26)
            impl = adjacency(tshape, IMPLEMENTED_DIAG)
            ok = {v: conj([tiled[v] >= 0, tiled[v] < 10 ** 7]) for v in np.ndindex(tshape)}  # always true for e in [0,10]
            cands = []
            for pk in peaks:
                s = tuple(int(c) for c in pk)
                t = tuple(s[i] + shape[i] * dirs[i] for i in range(3))
                cands.append((s, t, simple_paths(impl, s, t), simple_paths(full, s, t)))
            if path is None:
                prove('None only when no peak percolates', all(len(c[2]) == 0 for c in cands))
                return
            sites = [tuple(int(c) for c in v) for v in path.sites]
            prove('percolating path starts at a supplied peak', any(sites[0] == c[0] for c in cands))
            s0 = sites[0]
            prove('... and ends at its periodic image exactly one cell away along each requested axis',
                  sites[-1] == tuple(s0[i] + shape[i] * dirs[i] for i in range(3)))
            for a, b in zip(sites, sites[1:]):
                prove('consecutive voxels are neighbours in the tiled grid', b in full[a])
            prove('reported energies are the voxel free energies',
                  conj([path.energy[i] == tiled[v] for i, v in enumerate(sites)]) and len(path.energy) == len(sites))
            mine = core.ssum([tiled[v] for v in sites])
            prove('total_energy = sum of the voxel energies along the path', path.total_energy == mine)
            # cheapest over all supplied peaks: (a) per peak the contract returned a minimum-weight path, (b) the reported cost
            # (sum of voxel energies, GEMDAT's own selection criterion) is minimal among the per-peak optimal paths
            for (s, t, implp, allp) in cands:
                for q in implp:
                    wq = core.ssum([(tiled[a] + tiled[b]) / 2 for a, b in zip(q, q[1:])])
                    wm = core.ssum([(tiled[a] + tiled[b]) / 2 for a, b in zip(sites, sites[1:])])
                    if s == s0:
                        prove('path through its own peak is weight-minimal', wm <= wq)
            prove('path dims = original grid', tuple(path.dims) == shape)
            ws = path.wrapped_sites()
            fs = path.frac_sites()
            for i, v in enumerate(sites):
                prove('wrapped voxel lies inside the original grid along every axis',
                      tuple(ws[i]) == tuple(v[c] % shape[c] for c in range(3)))
                prove('fractional coordinates lie in [0,1) along every axis', all(0 <= float(x) < 1 for x in fs[i]))
            sample(dict(shape=list(shape), percolate=percolate, path=[list(v) for v in sites]))

    return symbolic_job(params, body, percolate_job_replay)


def percolate_job_replay(params, inputs):
    import gemdat.volume as gv
    shape, percolate, npeaks = tuple(params['shape']), params['percolate'], params['npeaks']
    voxels = list(np.ndindex(shape))
    dirs = [1 if c in percolate else 0 for c in 'xyz']
    tshape = tuple(shape[i] * (1 + dirs[i]) for i in range(3))
    e = _conc_energies(shape, inputs)
    peaks = np.array([voxels[int(inputs[f'peak_{k}'])] for k in range(npeaks)])
    fe = gv.FreeEnergyVolume(data=e, lattice=None)
    path = fe.optimal_percolating_path(peaks=peaks, percolate=percolate)
    desc = f'shape={shape} percolate={percolate} peaks={peaks.tolist()} e={e.tolist()}'
    if path is None:
        return False, f'no path although every voxel is admissible; {desc}'
    tiled = np.tile(e, tuple(1 + d for d in dirs))
    full = adjacency(tshape, ALL26)
    sites = [tuple(int(c) for c in v) for v in path.sites]
    s0 = sites[0]
    if not any(s0 == tuple(pk) for pk in peaks.tolist()) or sites[-1] != tuple(s0[i] + shape[i] * dirs[i] for i in range(3)):
        return False, f'endpoints {sites[0]} -> {sites[-1]}; {desc}'
    if any(b not in full[a] for a, b in zip(sites, sites[1:])):
        return False, f'non-neighbour step in {sites}; {desc}'
    if any(abs(float(en) - tiled[v]) > 1e-12 for en, v in zip(path.energy, sites)):
        return False, f'energies; {desc}'
    if [tuple(w) for w in path.wrapped_sites()] != [tuple(v[c] % shape[c] for c in range(3)) for v in sites]:
        return False, f'wrapped_sites {path.wrapped_sites()} for sites {sites}; {desc}'
    fs = np.asarray(path.frac_sites())
    if fs.min() < 0 or fs.max() >= 1:
        return False, f'frac_sites outside [0,1): {fs.tolist()}; {desc}'
    return True, 'ok'


def percolate_layout_job(params):
    """Percolation over several peaks on a grid with a *concrete* layout of blocked voxels (>= 1e7) and symbolic energies on the
    passable ones: a conducting channel and an isolated pocket, peaks supplied in a given order."""
    shape, percolate = tuple(params['shape']), params['percolate']
    passable = [tuple(v) for v in params['passable']]
    peaks_l = [tuple(v) for v in params['peaks']]
    dirs = [1 if c in percolate else 0 for c in 'xyz']
    tshape = tuple(shape[i] * (1 + dirs[i]) for i in range(3))
    BIG = 2 * 10 ** 7

    def body():
        with Patches() as p:
            gp, gv, proxy = _patch(p)
            e = S([sym_real('e_' + '_'.join(map(str, idx)), 0, 1) if idx in passable else BIG for idx in np.ndindex(shape)]).reshape(shape)
            fe = gv.FreeEnergyVolume(data=e, lattice=None)
            try:
                path = fe.optimal_percolating_path(peaks=np.array(peaks_l), percolate=percolate)
            except Exception as ex:
                event(f'exception:{type(ex).__name__}', detail=str(ex)[:200])
                return
            tiled = S(np.tile(np.asarray(e), tuple(1 + d for d in dirs)))
            tpass = {v for v in np.ndindex(tshape) if tuple(v[c] % shape[c] for c in range(3)) in passable}
            full = adjacency(tshape, ALL26)
            adj = {u: {v for v in full[u] if v in tpass} for u in tpass}
            best = []
            for s_ in peaks_l:
                t_ = tuple(s_[i] + shape[i] * dirs[i] for i in range(3))
                best.append((s_, t_, simple_paths(adj, s_, t_) if s_ in tpass else []))
            if path is None:
                prove('None only when no supplied peak percolates', all(len(b[2]) == 0 for b in best))
                return
            sites = [tuple(int(c) for c in v) for v in path.sites]
            prove('percolating path connects a supplied peak to its periodic image one cell away along each requested axis',
                  any(sites[0] == b[0] and sites[-1] == b[1] for b in best))
            prove('steps between neighbouring passable voxels', all(b_ in adj.get(a_, ()) for a_, b_ in zip(sites, sites[1:])))
            mine = core.ssum([tiled[v] for v in sites])
            prove('total_energy = sum of voxel energies', path.total_energy == mine)
            # cheapest over all supplied peaks: against the weight-optimal path of every peak (GEMDAT compares the summed voxel
            # energies of the per-peak weight-optimal paths)
            for (s_, t_, paths) in best:
                if not paths:
                    continue
                w = [core.ssum([(tiled[a_] + tiled[b_]) / 2 for a_, b_ in zip(q, q[1:])]) for q in paths]
                for i, q in enumerate(paths):
                    is_opt = conj([w[i] <= wj for wj in w])
                    strictly = conj([w[i] < wj for j, wj in enumerate(w) if j != i])
                    prove('no supplied peak has a cheaper percolating path',
                          implies(strictly, mine <= core.ssum([tiled[v] for v in q])))
            ws = path.wrapped_sites()
            for i, v in enumerate(sites):
                prove('wrapped voxel inside the original grid', tuple(ws[i]) == tuple(v[c] % shape[c] for c in range(3)))
            sample(dict(shape=list(shape), peaks=[list(v) for v in peaks_l], path=[list(v) for v in sites]))

    return symbolic_job(params, body, percolate_layout_replay)


def percolate_layout_replay(params, inputs):
    import gemdat.volume as gv
    shape, percolate = tuple(params['shape']), params['percolate']
    passable = [tuple(v) for v in params['passable']]
    peaks_l = [tuple(v) for v in params['peaks']]
    dirs = [1 if c in percolate else 0 for c in 'xyz']
    tshape = tuple(shape[i] * (1 + dirs[i]) for i in range(3))
    e = np.array([float(inputs['e_' + '_'.join(map(str, idx))]) if idx in passable else 2e7 for idx in np.ndindex(shape)]).reshape(shape)
    fe = gv.FreeEnergyVolume(data=e, lattice=None)
    path = fe.optimal_percolating_path(peaks=np.array(peaks_l), percolate=percolate)
    tpass = {v for v in np.ndindex(tshape) if tuple(v[c] % shape[c] for c in range(3)) in passable}
    full = adjacency(tshape, ALL26)
    adj = {u: {v for v in full[u] if v in tpass} for u in tpass}
    tiled = np.tile(e, tuple(1 + d for d in dirs))
    costs = []
    for s_ in peaks_l:
        t_ = tuple(s_[i] + shape[i] * dirs[i] for i in range(3))
        ps = simple_paths(adj, s_, t_) if s_ in tpass else []
        if ps:
            q = min(ps, key=lambda q: sum(0.5 * (tiled[a] + tiled[b]) for a, b in zip(q, q[1:])))
            costs.append(sum(tiled[v] for v in q))
    desc = f'shape={shape} passable={passable} peaks={peaks_l} e={e.tolist()}'
    if path is None:
        return (not costs), f'None returned although a supplied peak percolates (cheapest cost {min(costs) if costs else None}); {desc}'
    if not costs:
        return False, f'path returned although no peak percolates; {desc}'
    if path.total_energy > min(costs) + 1e-9:
        return False, f'returned path costs {path.total_energy}, a supplied peak percolates at cost {min(costs)}; {desc}'
    return True, 'ok'


# --------------------------------------------------------------------------- wrapped_sites / frac_sites on arbitrary sites


def wrap_job(params):
    def body():
        import gemdat.path as gp
        with Patches() as p:
            p.np(gp)
            dims = tuple(int(sym_int(f'dim_{c}', 1, 9)) for c in range(3))
            site = tuple(sym_int(f'site_{c}', -50, 50) for c in range(3))
            pw = gp.Pathway(sites=[site], energy=[0.0], dims=dims)
            w = pw.wrapped_sites()[0]
            for c in range(3):
                prove('wrapped coordinate lies in [0, dim) of its own axis', conj([w[c] >= 0, w[c] < dims[c]]))
                prove('wrapped coordinate is congruent to the site modulo its own axis size', (w[c] - site[c]) % dims[c] == 0)
            fs = pw.frac_sites()[0]
            for c in range(3):
                prove('fractional coordinate = (wrapped + 1/2) / dim, inside (0,1)', conj([fs[c] * dims[c] == w[c] + F(1, 2), fs[c] > 0, fs[c] < 1]))
            sample(dict(dims=list(dims)))

    return symbolic_job(params, body, wrap_job_replay)


def wrap_job_replay(params, inputs):
    import gemdat.path as gp
    dims = tuple(int(inputs[f'dim_{c}']) for c in range(3))
    site = tuple(int(inputs[f'site_{c}']) for c in range(3))
    pw = gp.Pathway(sites=[site], energy=[0.0], dims=dims)
    w = pw.wrapped_sites()[0]
    ok = all(0 <= w[c] < dims[c] and (w[c] - site[c]) % dims[c] == 0 for c in range(3))
    return ok, f'wrapped_sites({site}) with dims {dims} = {w}'


# --------------------------------------------------------------------------- real networkx (cross-check of the contract)


def realnx_job(params):
    shape, diagonal = tuple(params['shape']), params['diagonal']
    voxels = list(np.ndindex(shape))

    def body():
        import gemdat.path as gp
        import gemdat.volume as gv
        import networkx as nx
        with Patches() as p:
            p.np(gp, gv)
            e = _energies(shape)
            s, t = voxels[params['start']], voxels[params['stop']]
            fe = gv.FreeEnergyVolume(data=e, lattice=None)
            G = fe.free_energy_graph(max_energy_threshold=THR, diagonal=diagonal)
            impl = adjacency(shape, IMPLEMENTED_DIAG if diagonal else FACES)
            ok = {v: conj([e[v] >= 0, e[v] < THR]) for v in voxels}
            try:
                path = fe.optimal_path(F_graph=G, start=s, stop=t, method='dijkstra')
            except (nx.NodeNotFound, nx.NetworkXNoPath):
                return
            sites = [tuple(int(c) for c in v) for v in path.sites]
            mine = _criterion('dijkstra', e, sites)
            prove('real networkx Dijkstra: returned path is admissible and minimal (contract holds)',
                  conj([implies(conj([ok[v] for v in q]), mine <= _criterion('dijkstra', e, q)) for q in simple_paths(impl, s, t)] +
                       [ok[v] for v in sites]))

    sp = params.get('split')
    return symbolic_job(params, body, None, split=tuple(sp) if sp else None, max_paths=200000)


REPLAYS = dict(graph_job=graph_job_replay, path_job=path_job_replay, percolate_job=percolate_job_replay, wrap_job=wrap_job_replay,
               percolate_layout_job=percolate_layout_replay)
METHODS = ['dijkstra', 'bellman-ford', 'dijkstra-exp', 'simple', 'minmax-energy']


def jobs(tier, seed):
    js = []
    A = METHODS
    if tier == 'quick':
        grids = [((2, 2, 1), False, A), ((2, 2, 1), True, A), ((3, 2, 1), False, ['dijkstra', 'simple', 'minmax-energy']),
                 ((1, 2, 3), True, ['dijkstra', 'simple'])]
        ggrids = [((2, 2, 2), True), ((3, 2, 1), True), ((2, 2, 1), False)]
        fgrids = [((2, 1, 1), False), ((2, 2, 1), False)]
        perc = [((2, 1, 1), 'x', 1), ((1, 2, 1), 'y', 2), ((1, 1, 2), 'z', 1), ((1, 1, 1), 'xy', 1)]
    else:
        grids = [((2, 2, 1), False, A), ((2, 2, 1), True, A), ((3, 2, 1), False, A), ((3, 2, 1), True, ['dijkstra', 'simple', 'minmax-energy']),
                 ((1, 2, 3), True, A), ((2, 3, 1), False, A), ((2, 2, 2), False, ['dijkstra', 'simple'])]
        ggrids = [((2, 2, 2), True), ((3, 2, 1), True), ((2, 2, 1), False), ((3, 3, 1), True), ((2, 3, 2), False)]
        fgrids = [((2, 1, 1), False), ((2, 2, 1), False), ((2, 2, 1), True), ((3, 1, 1), False)]
        perc = [((2, 1, 1), 'x', 1), ((1, 2, 1), 'y', 2), ((1, 1, 2), 'z', 1), ((1, 1, 1), 'xy', 1), ((2, 1, 1), 'x', 2), ((1, 1, 1), 'xyz', 1),
                ((3, 1, 1), 'x', 1), ((1, 2, 1), 'xy', 1)]
    for shape, diag in ggrids:
        js.append(dict(name=f'graph_{"x".join(map(str, shape))}_{"diag" if diag else "faces"}', fn='graph_job', params=dict(shape=list(shape), diagonal=diag)))
    for shape, diag in fgrids:
        js.append(dict(name=f'graphfree_{"x".join(map(str, shape))}_{"diag" if diag else "faces"}', fn='graph_job',
                       params=dict(shape=list(shape), diagonal=diag, free=True)))
    for shape, diag, methods in grids:
        for m in methods:
            js.append(dict(name=f'path_{"x".join(map(str, shape))}_{"diag" if diag else "faces"}_{m}', fn='path_job',
                           params=dict(shape=list(shape), diagonal=diag, method=m)))
    for shape, diag, m in [((2, 2, 1), False, 'dijkstra'), ((2, 2, 1), True, 'simple')] + \
            ([] if tier == 'quick' else [((3, 2, 1), False, 'simple'), ((2, 2, 1), True, 'dijkstra')]):
        js.append(dict(name=f'path_{"x".join(map(str, shape))}_{"diag" if diag else "faces"}_{m}_after_other_graph', fn='path_job',
                       params=dict(shape=list(shape), diagonal=diag, method=m, history=True)))
    for shape, pc, k in perc:
        js.append(dict(name=f'percolate_{"x".join(map(str, shape))}_{pc}_{k}peaks', fn='percolate_job', params=dict(shape=list(shape), percolate=pc, npeaks=k)))
    chan = [[0, 0, 0], [1, 0, 0], [2, 0, 0], [1, 2, 0]]   # conducting channel along x (row y=0) + isolated pocket (1,2,0) on a 3x4x1 grid
    for tag, peaks in (('pocket_first', [[1, 2, 0], [0, 0, 0]]), ('pocket_last', [[2, 0, 0], [1, 2, 0]]), ('pocket_only', [[1, 2, 0]]),
                       ('two_channel_peaks', [[0, 0, 0], [1, 0, 0]])):
        js.append(dict(name=f'percolate_layout_3x4x1_{tag}', fn='percolate_layout_job',
                       params=dict(shape=[3, 4, 1], percolate='x', passable=chan, peaks=peaks)))
    js.append(dict(name='graph_3x3x3_diag_allpassable', fn='graph_job', params=dict(shape=[3, 3, 3], diagonal=True, free='passable')))
    if tier != 'quick':   # larger grids with unequal axes: structure only (every voxel passable, so no fork per voxel)
        js.append(dict(name='graph_2x3x4_faces_allpassable', fn='graph_job', params=dict(shape=[2, 3, 4], diagonal=False, free='passable')))
        js.append(dict(name='graph_4x3x2_diag_allpassable', fn='graph_job', params=dict(shape=[4, 3, 2], diagonal=True, free='passable')))
    js.append(dict(name='wrapped_sites', fn='wrap_job', params={}))
    if tier != 'quick':
        for i in range(16):
            js.append(dict(name=f'realnx_2x2x1_faces_part{i}', fn='realnx_job', params=dict(shape=[2, 2, 1], diagonal=False, start=0, stop=3, split=[i, 4])))
    return js
