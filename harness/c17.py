"""C17 - shape analysis collects exactly the symmetry-equivalent points within the radius.

exec (unmodified): gemdat.shape.ShapeAnalyzer.find_equivalent_positions / analyze_positions / analyze_trajectory (supercell
folding), ShapeData.distances; pymatgen SymmOp.operate / inverse / operate_multi and SpaceGroup (real, on symbolic points).
"""
from __future__ import annotations

from fractions import Fraction as F

import numpy as np

from symgem import core, pool
from symgem.core import SRoot, assume, conj, disj, event, implies, ite, prove, sample, sym_real
from symgem.runner import symbolic_job
from symgem.stubs import LatticeProxy
from symgem.symnp import Patches, S

PROPERTY = 'C17'
EPS = F(1, 10 ** 6)

BOUNDS = {
    'quick': 'one site and one input position, each with one symbolic fractional coordinate (any real in [0,1)) along the same axis, the other '
             'two coordinates from a concrete pool incl. values next to 0 and 1; groups P1, P-1 on the triclinic pool cell, P3 on an exactly hexagonal rational cell; '
             'radius 1.0 A; supercell (2,1,1) folding on P-1',
    'thorough': 'all three axes in turn, two radii, additionally P2_1/c (mono567b110), Pnma (ortho457), P-3 (hexagonal axes), supercells (2,1,1), (1,2,2)',
}
OUTSIDE = ['groups with 16 or more operations (P4/mmm did not finish in 25 min per job), hexagonal groups beyond P3 / P-3, rhombohedral / cubic groups (Fm-3m: 192) and lattices whose rounded matrix is not exactly invariant under the group',
           'more than one input position per query (rows are independent)', 'radii at or above half the smallest perpendicular width']
ASSUMPTIONS = [
    'Lattice.get_all_distances contract (27-image metric-tensor minimum after reduction)',
    'the lattice metric is exactly invariant under the rotation parts of the group (checked per job on the exact rationals)',
    'band 1e-6 A on the radius comparisons',
]
STUBS = ['pymatgen Lattice -> LatticeProxy (distances, Cartesian conversion on symbols)', 'np.digitize / np.round on symbols (symgem.symnp)']

GROUPS = {
    'P1': ('P1', 'tric'), 'P-1': ('P-1', 'tric'), 'P2_1/c': ('P2_1/c', 'mono567b110'), 'Pnma': ('Pnma', 'ortho457'),
    'P4/mmm': ('P4/mmm', 'tetra447'),
    # hexagonal axes: fractional rotation matrices that are not orthogonal (R^-1 != R^T)
    'P3': ('P3', 'hex111'), 'P-3': ('P-3', 'hex111'),
}
FIXED = [[0.97, 0.02], [0.5, 0.03], [0.25, 0.6]]


def _matrix(lat):
    if lat == 'tetra447':
        return np.diag([4.0, 4.0, 7.0])
    if lat == 'hex111':
        # an exactly hexagonal cell with a rational matrix: a, b in the (111) plane of a cube, c along [111]
        # (|a| = |b| = 3.5*sqrt(2), angle 120 degrees, |c| = 4.5*sqrt(3)), so the metric is exactly invariant under 3-fold rotations
        return np.array([[3.5, -3.5, 0.0], [0.0, 3.5, -3.5], [4.5, 4.5, 4.5]])
    return pool.lattice_matrices()[lat]


class _Site:
    def __init__(self, frac, label='X'):
        self.frac_coords = frac
        self.label = label


class _FakeTraj:
    def __init__(self, positions, M):
        self.positions = positions
        self._M = M

    def get_lattice(self, idx=None):
        from pymatgen.core import Lattice
        return Lattice(self._M)


def _point(axis, sym, fixed):
    fixed = list(fixed)
    return [sym if c == axis else core.rat(fixed.pop(0)) for c in range(3)]


def _conc_point(axis, val, fixed):
    fixed = list(fixed)
    return [float(val) if c == axis else float(fixed.pop(0)) for c in range(3)]


def shape_job(params):
    gname, axis, fs, fp, radius, supercell = params['group'], params['axis'], params['site_fixed'], params['pos_fixed'], params['radius'], params.get('supercell')
    sym, lat = GROUPS[gname]
    M = _matrix(lat)

    def body():
        import gemdat.shape as gs
        from pymatgen.core import Lattice
        from pymatgen.symmetry.groups import SpaceGroup
        with Patches() as p:
            p.np(gs)
            p.set(core, 'FLOOR_FORK', True)
            LP = LatticeProxy(Lattice(M))
            G = LP.G
            sg = SpaceGroup(sym)
            ops = list(sg)
            for op in ops:  # metric invariance (exact)
                R = [[core.rat(round(float(v))) if abs(float(v) - round(float(v))) < 1e-12 else core.rat(float(v)) for v in row] for row in op.rotation_matrix]
                RtGR = [[sum(R[k][i] * G[k][l] * R[l][j] for k in range(3) for l in range(3)) for j in range(3)] for i in range(3)]
                prove('lattice metric invariant under the group operation', all(RtGR[i][j] == G[i][j] for i in range(3) for j in range(3)))
            s = sym_real('site', 0, 1, hi_strict=True)
            x = sym_real('pos', 0, 1, hi_strict=True)
            site_frac = S(_point(axis, s, fs))
            an = gs.ShapeAnalyzer(sites=[_Site(site_frac)], lattice=LP, spacegroup=sg)
            if supercell:
                sc = [core.rat(v) for v in supercell]
                # position given in the supercell: fractional coordinate of the supercell in [0,1)
                pos_super = S([_point(axis, x, fp)])
                tr = _FakeTraj(pos_super.reshape(1, 1, 3), np.asarray(M) * np.array(supercell, dtype=float)[:, None])
                folded = [pos_super[0, c] * sc[c] - core.sfloor(pos_super[0, c] * sc[c]) for c in range(3)]
            else:
                positions = S([_point(axis, x, fp)])
                folded = [positions[0, c] for c in range(3)]
            try:
                if supercell:
                    shapes = an.analyze_trajectory(tr, supercell=tuple(float(v) for v in supercell), radius=radius)
                else:
                    shapes = an.analyze_positions(positions, radius=radius)
            except Exception as e:
                event(f'exception:{type(e).__name__}', detail=str(e)[:200])
                return
            prove('one shape per site', len(shapes) == 1)
            rows = np.asarray(shapes[0].coords, dtype=object)
            rows = rows.reshape(-1, 3)
            r2lo, r2hi = (core.rat(radius) - EPS) ** 2, (core.rat(radius) + EPS) ** 2
            # oracle: per operation, the equivalent site and its minimum-image distance to the (folded) position
            expected = []
            for op in ops:
                A = [[core.rat(float(v)) for v in row] for row in op.affine_matrix]
                eq = [core.ssum([A[i][j] * site_frac[j] for j in range(3)]) + A[i][3] for i in range(3)]
                q = LP.dist2_generic(eq, folded)
                expected.append(q)
            for q in expected:   # band: no equivalent site lies within 1e-6 A of the surface of the selection sphere
                assume(disj([q < r2lo, q > r2hi]))
            n_in = core.ssum([ite(q < core.rat(radius) ** 2, 1, 0) for q in expected])
            prove('number of points = number of (operation, position) pairs within the radius', len(rows) == n_in)
            # rows appear in operation order (one per selected operation)
            sel_ops = []
            for k, q in enumerate(expected):
                if bool(q < core.rat(radius) ** 2):
                    sel_ops.append(k)
            prove('rows correspond to the selected operations', len(sel_ops) == len(rows))
            if len(sel_ops) != len(rows):
                return
            dists = shapes[0].distances()
            for i, k in enumerate(sel_ops):
                qrow = core.ssum([rows[i][a] * rows[i][a] for a in range(3)])
                prove('every collected point lies within the radius of the site centre', qrow <= r2hi)
                tol = F(1, 10 ** 9)   # concrete coordinates pass through float arithmetic inside pymatgen's SymmOp
                prove("point's distance to the centre = source's distance to the symmetry-equivalent site",
                      conj([qrow - expected[k] <= tol, expected[k] - qrow <= tol]),
                      detail=dict(qrow=qrow, expected=expected[k], op=ops[k].as_xyz_str(), row=list(rows[i]), all_expected=list(expected)))
                d = dists[i]
                prove('ShapeData.distances() = length of the point', (d ** 2 == qrow) if isinstance(d, (SRoot, core.SNum)) else True)
            sample(dict(group=gname, axis=axis, rows=len(rows)))

    return symbolic_job(params, body, shape_job_replay, timeout_ms=300000)


def shape_job_replay(params, inputs):
    import gemdat.shape as gs
    from pymatgen.core import Lattice, PeriodicSite
    from pymatgen.symmetry.groups import SpaceGroup
    gname, axis, fs, fp, radius, supercell = params['group'], params['axis'], params['site_fixed'], params['pos_fixed'], params['radius'], params.get('supercell')
    sym, lat = GROUPS[gname]
    M = np.asarray(_matrix(lat), dtype=float)
    sg = SpaceGroup(sym)
    site_frac = np.array(_conc_point(axis, inputs['site'], fs))
    pos = np.array([_conc_point(axis, inputs['pos'], fp)])
    latt = Lattice(M)
    an = gs.ShapeAnalyzer(sites=[PeriodicSite('Li', site_frac, latt)], lattice=latt, spacegroup=sg)
    import warnings
    with warnings.catch_warnings():
        warnings.simplefilter('ignore')
        if supercell:
            tr = _FakeTraj(pos.reshape(1, 1, 3), M * np.array(supercell, dtype=float)[:, None])
            shapes = an.analyze_trajectory(tr, supercell=tuple(float(v) for v in supercell), radius=radius)
            folded = np.mod(pos[0] * np.array(supercell, dtype=float), 1)
        else:
            shapes = an.analyze_positions(pos.copy(), radius=radius)
            folded = pos[0]
    rows = np.asarray(shapes[0].coords, dtype=float).reshape(-1, 3)
    exp = []
    for op in sg:
        eq = op.operate(site_frac)
        d = pool.min_image_dist(M, eq, folded, rng=3)
        if abs(d - radius) < 1e-6:
            return True, 'distance on the radius: outside the band'
        if d < radius:
            exp.append(d)
    got = sorted(np.linalg.norm(rows, axis=1).tolist())
    desc = f'group={gname} lattice={lat} site={site_frac.tolist()} position={pos.tolist()} radius={radius} supercell={supercell}'
    if len(got) != len(exp):
        return False, f'{len(got)} points collected, {len(exp)} (operation, position) pairs within the radius; {desc}'
    if any(abs(a - b) > 1e-6 for a, b in zip(got, sorted(exp))):
        return False, f'point distances from the centre {got} != distances to the equivalent sites {sorted(exp)}; {desc}'
    return True, 'ok'


REPLAYS = dict(shape_job=shape_job_replay)


def jobs(tier, seed):
    js = []
    if tier == 'quick':
        cfg = [('P1', 0, 0, 0, 1.0, None), ('P-1', 0, 0, 0, 1.0, None), ('P-1', 1, 0, 1, 1.0, None), ('P-1', 0, 0, 0, 1.0, [2, 1, 1]),
               ('P3', 0, 0, 0, 1.0, None)]
    else:
        cfg = [(g, ax, i, j, r, None) for g in ('P1', 'P-1', 'P2_1/c') for ax in (0, 1, 2) for (i, j) in ((0, 0), (1, 2)) for r in (1.0, 1.6)] + \
              [('Pnma', ax, 0, 0, 1.0, None) for ax in (0, 2)] + \
              [('P-1', 0, 0, 0, 1.0, [2, 1, 1]), ('P-1', 1, 0, 1, 1.0, [1, 2, 2])] + \
              [('P3', ax, i, j, 1.0, None) for ax in (0, 1, 2) for (i, j) in ((0, 0), (1, 2))] + [('P-3', 0, 0, 0, 1.0, None), ('P-3', 1, 1, 2, 1.0, None)]
    for g, ax, i, j, r, sc in cfg:
        tag = g.replace('/', '').replace('_', '')
        js.append(dict(name=f'shape_{tag}_axis{ax}_s{i}p{j}_r{r}' + (f'_sc{"".join(map(str, sc))}' if sc else ''), fn='shape_job',
                       params=dict(group=g, axis=ax, site_fixed=FIXED[i], pos_fixed=FIXED[j], radius=r, supercell=sc)))
    return js
