"""C06 - mean squared displacement and tracer diffusivity equal their definitions.

exec (unmodified): gemdat.trajectory.Trajectory.mean_squared_displacement (np.fft by the
Wiener-Khinchin contract), cumulative_displacements, distances_from_base_position, _lengths,
gemdat.metrics.TrajectoryMetrics.tracer_diffusivity.
"""
from __future__ import annotations

from fractions import Fraction as F

import numpy as np

from symgem import core, pool
from symgem.core import assume, conj, event, prove, prove_isolated, sample, sym_real
from symgem.runner import symbolic_job
from symgem.stubs import rat_array
from symgem.symnp import Patches, S

PROPERTY = 'C06'
ANGSTROM = 1e-10

BOUNDS = {
    'quick': 'displacement-form trajectories (steps any reals in [-1/2,1/2], so atoms may cross faces arbitrarily often), '
             '(T,A) in {(2,1),(3,1),(3,2),(4,1)} on pool lattices cubic5, hex558, tric, cubic5_rotz; dimensions 1..3',
    'thorough': '(T,A) up to (5,2), (6,1) on all 11 pool lattices',
}
OUTSIDE = ['floating-point rounding of the FFT and of sums', 'T above the bound']
ASSUMPTIONS = [
    'input in displacement form (minimum-image steps + base positions): that GEMDAT derives these steps from wrapped positions is C01',
    'np.fft.fft/ifft: ifft(|fft(x, n)|^2) = circular autocorrelation of x zero-padded to n (Wiener-Khinchin, exact in the reals)',
    'REAL mode: floats read as reals; lattice.metric_tensor taken as M M^T exactly; scipy.constants.angstrom and the time step are '
    'handed in as exact rationals so that constant folding in float arithmetic does not enter the algebraic identity',
]
STUBS = ['np.fft.fft / np.fft.ifft -> Wiener-Khinchin contract (symgem.symnp.Spectrum)', 'FloatWithUnit -> identity',
         'np.sqrt -> distance represented by its square']


def _mk(gt, d, b, M, dt):
    from pymatgen.core import Species
    A = d.shape[1]
    return gt.Trajectory(species=[Species('Li')] * A, coords=d, lattice=M, time_step=dt, metadata={'temperature': 300},
                         coords_are_displacement=True, base_positions=b)


def msd_job(params):
    T, A, lat, dims = params['T'], params['A'], params['lattice'], params['dims']
    M = pool.lattice_matrices()[lat]
    Mr = np.asarray(rat_array(M))
    dt = 2e-15

    def body():
        import gemdat.metrics as gmx
        import gemdat.trajectory as gt
        import pymatgen.core.trajectory as pt
        from pymatgen.core import Lattice
        with Patches() as p:
            p.np(gt, pt, gmx)
            p.set(gmx, 'FloatWithUnit', lambda x, unit: x)
            p.set(gmx, 'angstrom', F(1, 10 ** 10))  # exact reading of scipy.constants.angstrom
            Gr = np.dot(Mr, Mr.T).view(type(rat_array(M)))
            p.set(Lattice, 'metric_tensor', property(lambda self: Gr))
            lo, hi = F(-1, 2), F(1, 2)
            d = S([[[0 if t == 0 else sym_real(f'd_{t}_{a}_{c}', lo, hi) for c in range(3)] for a in range(A)] for t in range(T)])
            b = S([[sym_real(f'b_{a}_{c}', 0, 1, hi_strict=True) for c in range(3)] for a in range(A)])
            tr = _mk(gt, d.copy(), b.copy(), M, core.rat(dt))
            try:
                msd = tr.mean_squared_displacement()
                dist = tr.distances_from_base_position()
                Ds = {dim: gmx.TrajectoryMetrics(tr).tracer_diffusivity(dimensions=dim) for dim in dims}
            except Exception as e:
                event(f'exception:{type(e).__name__}', detail=str(e)[:200])
                return
            prove('msd shape (atoms, frames)', tuple(msd.shape) == (A, T))
            # oracle: unwrapped Cartesian positions r[t] = (sum_{s<=t} d[s]) M
            cart = {}
            for a in range(A):
                for t in range(T):
                    c = [core.ssum([d[s, a, i] for s in range(t + 1)]) for i in range(3)]
                    cart[(a, t)] = [core.ssum([c[i] * Mr[i][j] for i in range(3)]) for j in range(3)]
            for a in range(A):
                for tau in range(T):
                    terms = []
                    for t in range(T - tau):
                        diff = [cart[(a, t + tau)][j] - cart[(a, t)][j] for j in range(3)]
                        terms.append(core.ssum([v * v for v in diff]))
                    exp = core.ssum(terms) / (T - tau)
                    prove('msd[i,tau] = mean over time origins of |r(t+tau)-r(t)|^2', msd[a, tau] == exp)
                prove('msd at lag 0 is zero', msd[a, 0] == 0)
            fin = []
            for a in range(A):
                for t in range(T):
                    q = core.ssum([v * v for v in cart[(a, t)]])
                    prove('distance from start = Cartesian length of the unwrapped displacement', dist[a, t] ** 2 == q)
                    prove('distance is non-negative', dist[a, t] >= 0)
                fin.append(core.ssum([v * v for v in cart[(a, T - 1)]]))
            for dim in dims:
                exp = (core.ssum(fin) / A) * core.rat(ANGSTROM) ** 2 / (2 * dim * T * core.rat(dt))
                prove('tracer diffusivity = mean final squared displacement / (2 d t_total)', Ds[dim] == exp)
            sample(dict(T=T, A=A, lattice=lat))

    return symbolic_job(params, body, msd_job_replay)


def msd_job_replay(params, inputs):
    import gemdat.metrics as gmx
    import gemdat.trajectory as gt
    T, A, lat, dims = params['T'], params['A'], params['lattice'], params['dims']
    M = pool.lattice_matrices()[lat]
    dt = 2e-15
    d = np.array([[[0.0 if t == 0 else float(inputs[f'd_{t}_{a}_{c}']) for c in range(3)] for a in range(A)] for t in range(T)])
    b = np.array([[float(inputs[f'b_{a}_{c}']) for c in range(3)] for a in range(A)])
    tr = _mk(gt, d.copy(), b.copy(), M, dt)
    r = np.cumsum(d, axis=0) @ M  # (T, A, 3)
    desc = f'lattice={lat} d={d.tolist()}'
    msd = tr.mean_squared_displacement()
    scale = 1 + float(np.abs(r).max()) ** 2
    for a in range(A):
        for tau in range(T):
            e = np.mean([np.sum((r[t + tau, a] - r[t, a]) ** 2) for t in range(T - tau)])
            if abs(msd[a, tau] - e) > 1e-9 * scale:
                return False, f'msd[{a},{tau}]={msd[a, tau]} != {e}; {desc}'
    dist = tr.distances_from_base_position()
    if np.abs(dist - np.linalg.norm(r, axis=-1).T).max() > 1e-9 * scale:
        return False, f'distances {dist.tolist()} != Cartesian lengths; {desc}'
    for dim in dims:
        got = float(gmx.TrajectoryMetrics(tr).tracer_diffusivity(dimensions=dim))
        e = np.mean(np.sum(r[-1] ** 2, axis=-1)) * ANGSTROM ** 2 / (2 * dim * T * dt)
        if abs(got - e) > 1e-9 * max(abs(e), 1e-300):
            return False, f'tracer_diffusivity({dim})={got} != {e}; {desc}'
    return True, 'ok'


REPLAYS = dict(msd_job=msd_job_replay)


def jobs(tier, seed):
    if tier == 'quick':
        cfg = [(2, 1, 'cubic5'), (3, 1, 'hex558'), (3, 2, 'tric'), (4, 1, 'cubic5_rotz'), (3, 1, 'mono567b110')]
    else:
        cfg = [(T, A, lat) for (T, A) in ((2, 1), (3, 1), (3, 2), (4, 1)) for lat in pool.ALL_LATTICES] + \
              [(5, 2, 'tric'), (6, 1, 'hex558'), (5, 1, 'rhomb60'), (3, 2, 'rand_a'), (4, 1, 'rand_b')]
    return [dict(name=f'msd_T{T}_A{A}_{lat}', fn='msd_job', params=dict(T=T, A=A, lattice=lat, dims=[1, 2, 3])) for T, A, lat in cfg]
