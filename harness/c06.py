"""C06 - mean squared displacement and tracer diffusivity equal their definitions.

exec (unmodified): gemdat.trajectory.Trajectory.mean_squared_displacement (np.fft by the
Wiener-Khinchin contract), cumulative_displacements, distances_from_base_position, _lengths,
gemdat.metrics.TrajectoryMetrics.tracer_diffusivity.
"""
from __future__ import annotations

from fractions import Fraction as F

import numpy as np

from symgem import core, pool
from symgem.core import assume, conj, event, prove, prove_isolated, sample, sym_real
from symgem.runner import symbolic_job
from symgem.stubs import rat_array
from symgem.symnp import Patches, S

PROPERTY = 'C06'
ANGSTROM = 1e-10

BOUNDS = {
    'quick': 'displacement-form trajectories (steps any reals in [-1/2,1/2], so atoms may cross faces arbitrarily often), '
             '(T,A) in {(2,1),(3,1),(3,2),(4,1)} on pool lattices cubic5, hex558, tric, cubic5_rotz; dimensions 1..3; '
             'msd_after_extend_*: first 2 frames analysed, same object extended in place by 1 frame, analysed again (1 atom along one axis, cubic5/tric)',
    'thorough': '(T,A) up to (5,2), (6,1) on all 11 pool lattices; msd_after_extend_* with T1+T2 <= 4 on 5 lattices',
}
OUTSIDE = ['floating-point rounding of the FFT and of sums', 'T above the bound',
           'history variant (analyse, extend() in place, analyse again): one atom moving along one cell axis, steps in [-0.4,0.4]']
ASSUMPTIONS = [
    'input in displacement form (minimum-image steps + base positions): that GEMDAT derives these steps from wrapped positions is C01',
    'np.fft.fft/ifft: ifft(|fft(x, n)|^2) = circular autocorrelation of x zero-padded to n (Wiener-Khinchin, exact in the reals)',
    'REAL mode: floats read as reals; lattice.metric_tensor taken as M M^T exactly; scipy.constants.angstrom and the time step are '
    'handed in as exact rationals so that constant folding in float arithmetic does not enter the algebraic identity',
]
STUBS = ['np.fft.fft / np.fft.ifft -> Wiener-Khinchin contract (symgem.symnp.Spectrum)', 'FloatWithUnit -> identity',
         'np.sqrt -> distance represented by its square']


def _mk(gt, d, b, M, dt):
    from pymatgen.core import Species
    A = d.shape[1]
    return gt.Trajectory(species=[Species('Li')] * A, coords=d, lattice=M, time_step=dt, metadata={'temperature': 300},
                         coords_are_displacement=True, base_positions=b)


def msd_job(params):
    T, A, lat, dims = params['T'], params['A'], params['lattice'], params['dims']
    M = pool.lattice_matrices()[lat]
    Mr = np.asarray(rat_array(M))
    dt = 2e-15

    def body():
        import gemdat.metrics as gmx
        import gemdat.trajectory as gt
        import pymatgen.core.trajectory as pt
        from pymatgen.core import Lattice
        with Patches() as p:
            p.np(gt, pt, gmx)
            p.set(gmx, 'FloatWithUnit', lambda x, unit: x)
            p.set(gmx, 'angstrom', F(1, 10 ** 10))  # exact reading of scipy.constants.angstrom
            Gr = np.dot(Mr, Mr.T).view(type(rat_array(M)))
            p.set(Lattice, 'metric_tensor', property(lambda self: Gr))
            lo, hi = F(-1, 2), F(1, 2)
            d = S([[[0 if t == 0 else sym_real(f'd_{t}_{a}_{c}', lo, hi) for c in range(3)] for a in range(A)] for t in range(T)])
            b = S([[sym_real(f'b_{a}_{c}', 0, 1, hi_strict=True) for c in range(3)] for a in range(A)])
            tr = _mk(gt, d.copy(), b.copy(), M, core.rat(dt))
            try:
                msd = tr.mean_squared_displacement()
                dist = tr.distances_from_base_position()
                Ds = {dim: gmx.TrajectoryMetrics(tr).tracer_diffusivity(dimensions=dim) for dim in dims}
            except Exception as e:
                event(f'exception:{type(e).__name__}', detail=str(e)[:200])
                return
            prove('msd shape (atoms, frames)', tuple(msd.shape) == (A, T))
            # oracle: unwrapped Cartesian positions r[t] = (sum_{s<=t} d[s]) M
            cart = {}
            for a in range(A):
                for t in range(T):
                    c = [core.ssum([d[s, a, i] for s in range(t + 1)]) for i in range(3)]
                    cart[(a, t)] = [core.ssum([c[i] * Mr[i][j] for i in range(3)]) for j in range(3)]
            for a in range(A):
                for tau in range(T):
                    terms = []
                    for t in range(T - tau):
                        diff = [cart[(a, t + tau)][j] - cart[(a, t)][j] for j in range(3)]
                        terms.append(core.ssum([v * v for v in diff]))
                    exp = core.ssum(terms) / (T - tau)
                    prove('msd[i,tau] = mean over time origins of |r(t+tau)-r(t)|^2', msd[a, tau] == exp)
                prove('msd at lag 0 is zero', msd[a, 0] == 0)
            fin = []
            for a in range(A):
                for t in range(T):
                    q = core.ssum([v * v for v in cart[(a, t)]])
                    prove('distance from start = Cartesian length of the unwrapped displacement', dist[a, t] ** 2 == q)
                    prove('distance is non-negative', dist[a, t] >= 0)
                fin.append(core.ssum([v * v for v in cart[(a, T - 1)]]))
            for dim in dims:
                exp = (core.ssum(fin) / A) * core.rat(ANGSTROM) ** 2 / (2 * dim * T * core.rat(dt))
                prove('tracer diffusivity = mean final squared displacement / (2 d t_total)', Ds[dim] == exp)
            sample(dict(T=T, A=A, lattice=lat))

    return symbolic_job(params, body, msd_job_replay)


def msd_job_replay(params, inputs):
    import gemdat.metrics as gmx
    import gemdat.trajectory as gt
    T, A, lat, dims = params['T'], params['A'], params['lattice'], params['dims']
    M = pool.lattice_matrices()[lat]
    dt = 2e-15
    d = np.array([[[0.0 if t == 0 else float(inputs[f'd_{t}_{a}_{c}']) for c in range(3)] for a in range(A)] for t in range(T)])
    b = np.array([[float(inputs[f'b_{a}_{c}']) for c in range(3)] for a in range(A)])
    tr = _mk(gt, d.copy(), b.copy(), M, dt)
    r = np.cumsum(d, axis=0) @ M  # (T, A, 3)
    desc = f'lattice={lat} d={d.tolist()}'
    msd = tr.mean_squared_displacement()
    scale = 1 + float(np.abs(r).max()) ** 2
    for a in range(A):
        for tau in range(T):
            e = np.mean([np.sum((r[t + tau, a] - r[t, a]) ** 2) for t in range(T - tau)])
            if abs(msd[a, tau] - e) > 1e-9 * scale:
                return False, f'msd[{a},{tau}]={msd[a, tau]} != {e}; {desc}'
    dist = tr.distances_from_base_position()
    if np.abs(dist - np.linalg.norm(r, axis=-1).T).max() > 1e-9 * scale:
        return False, f'distances {dist.tolist()} != Cartesian lengths; {desc}'
    for dim in dims:
        got = float(gmx.TrajectoryMetrics(tr).tracer_diffusivity(dimensions=dim))
        e = np.mean(np.sum(r[-1] ** 2, axis=-1)) * ANGSTROM ** 2 / (2 * dim * T * dt)
        if abs(got - e) > 1e-9 * max(abs(e), 1e-300):
            return False, f'tracer_diffusivity({dim})={got} != {e}; {desc}'
    return True, 'ok'


def extend_job(params):
    """History variant: analyse the first T1 frames, extend the *same* object in place, analyse again."""
    T1, T2, lat, dims = params['T1'], params['T2'], params['lattice'], params['dims']
    T = T1 + T2
    M = pool.lattice_matrices()[lat]
    Mr = np.asarray(rat_array(M))
    dt = 2e-15
    ax = params.get('axis', 0)

    def body():
        import gemdat.metrics as gmx
        import gemdat.trajectory as gt
        import pymatgen.core.trajectory as pt
        from pymatgen.core import Lattice
        with Patches() as p:
            p.np(gt, pt, gmx)
            p.set(core, 'FLOOR_FORK', True)  # wrap / minimum image of extend() are decided by forking, the rest is polynomial
            p.set(gmx, 'FloatWithUnit', lambda x, unit: x)
            p.set(gmx, 'angstrom', F(1, 10 ** 10))
            Gr = np.dot(Mr, Mr.T).view(type(rat_array(M)))
            p.set(Lattice, 'metric_tensor', property(lambda self: Gr))
            lo, hi = F(-2, 5), F(2, 5)  # steps strictly inside the half cell: no minimum-image tie when re-derived
            x = [sym_real(f'x_{t}', lo, hi) for t in range(1, T)]
            b0 = sym_real('b', 0, 1, hi_strict=True)
            vec = lambda v: [v if c == ax else 0 for c in range(3)]
            d1 = S([[vec(0 if t == 0 else x[t - 1])] for t in range(T1)])
            b1 = S([vec(b0)])
            base2 = b0 + core.ssum([x[t - 1] for t in range(1, T1)]) + x[T1 - 1]
            d2 = S([[vec(0 if t == 0 else x[T1 + t - 1])] for t in range(T2)])
            b2 = S([vec(base2)])
            try:
                tr = _mk(gt, d1.copy(), b1.copy(), M, core.rat(dt))
                other = _mk(gt, d2.copy(), b2.copy(), M, core.rat(dt))
                # earlier queries on the object that is extended next (answers belong to the first T1 frames only)
                tr.mean_squared_displacement(); tr.distances_from_base_position()
                gmx.TrajectoryMetrics(tr).tracer_diffusivity(dimensions=3)
                tr.extend(other)
                msd = tr.mean_squared_displacement()
                dist = tr.distances_from_base_position()
                Ds = {dim: gmx.TrajectoryMetrics(tr).tracer_diffusivity(dimensions=dim) for dim in dims}
            except Exception as e:
                event(f'exception:{type(e).__name__}', detail=str(e)[:200])
                return
            prove('after extend: msd covers all frames', tuple(msd.shape) == (1, T))
            prove('after extend: distances cover all frames', tuple(dist.shape) == (1, T))
            row = Mr[ax]
            n2 = core.ssum([row[j] * row[j] for j in range(3)])
            cum = [core.ssum(x[:t]) if t else 0 for t in range(T)]
            for tau in range(T):
                exp = core.ssum([(cum[t + tau] - cum[t]) ** 2 * n2 for t in range(T - tau)]) / (T - tau)
                prove('after extend: msd[i,tau] = mean over time origins of |r(t+tau)-r(t)|^2', msd[0, tau] == exp)
            for t in range(T):
                prove('after extend: distance from start = Cartesian length of the unwrapped displacement', dist[0, t] ** 2 == cum[t] ** 2 * n2)
            for dim in dims:
                exp = (cum[T - 1] ** 2 * n2) * core.rat(ANGSTROM) ** 2 / (2 * dim * T * core.rat(dt))
                prove('after extend: tracer diffusivity = final squared displacement / (2 d t_total)', Ds[dim] == exp)
            sample(dict(T1=T1, T2=T2, lattice=lat))

    return symbolic_job(params, body, extend_job_replay)


def extend_job_replay(params, inputs):
    import gemdat.metrics as gmx
    import gemdat.trajectory as gt
    T1, T2, lat, dims = params['T1'], params['T2'], params['lattice'], params['dims']
    T = T1 + T2
    ax = params.get('axis', 0)
    M = pool.lattice_matrices()[lat]
    dt = 2e-15
    x = [float(inputs.get(f'x_{t}', 0)) for t in range(1, T)]
    if any(abs(v) > 0.45 for v in x):
        return True, 'outside the band (step next to the half-cell tie)'
    b0 = float(inputs.get('b', 0))
    vec = lambda v: [v if c == ax else 0.0 for c in range(3)]
    d1 = np.array([[vec(0.0 if t == 0 else x[t - 1])] for t in range(T1)])
    d2 = np.array([[vec(0.0 if t == 0 else x[T1 + t - 1])] for t in range(T2)])
    tr = _mk(gt, d1, np.array([vec(b0)]), M, dt)
    other = _mk(gt, d2, np.array([vec(b0 + sum(x[:T1]))]), M, dt)
    tr.mean_squared_displacement(); tr.distances_from_base_position()
    gmx.TrajectoryMetrics(tr).tracer_diffusivity(dimensions=3)
    tr.extend(other)
    cum = np.concatenate([[0.0], np.cumsum(x)])
    r = cum[:, None] * M[ax][None, :]
    desc = f'lattice={lat} b={b0} steps={x} (first {T1} frames analysed, then extend() by {T2})'
    msd = tr.mean_squared_displacement()
    dist = tr.distances_from_base_position()
    if msd.shape != (1, T) or dist.shape != (1, T):
        return False, f'after extend msd shape {msd.shape}, distances shape {dist.shape}, expected {(1, T)}; {desc}'
    scale = 1 + float(np.abs(r).max()) ** 2
    for tau in range(T):
        e = np.mean([np.sum((r[t + tau] - r[t]) ** 2) for t in range(T - tau)])
        if abs(msd[0, tau] - e) > 1e-9 * scale:
            return False, f'after extend msd[0,{tau}]={msd[0, tau]} != {e}; {desc}'
    if np.abs(dist[0] - np.linalg.norm(r, axis=-1)).max() > 1e-9 * scale:
        return False, f'after extend distances {dist.tolist()} != Cartesian lengths; {desc}'
    for dim in dims:
        got = float(gmx.TrajectoryMetrics(tr).tracer_diffusivity(dimensions=dim))
        e = np.sum(r[-1] ** 2) * ANGSTROM ** 2 / (2 * dim * T * dt)
        if abs(got - e) > 1e-9 * max(abs(e), 1e-300):
            return False, f'after extend tracer_diffusivity({dim})={got} != {e}; {desc}'
    return True, 'ok'


REPLAYS = dict(msd_job=msd_job_replay, extend_job=extend_job_replay)


def jobs(tier, seed):
    if tier == 'quick':
        cfg = [(2, 1, 'cubic5'), (3, 1, 'hex558'), (3, 2, 'tric'), (4, 1, 'cubic5_rotz'), (3, 1, 'mono567b110')]
    else:
        cfg = [(T, A, lat) for (T, A) in ((2, 1), (3, 1), (3, 2), (4, 1)) for lat in pool.ALL_LATTICES] + \
              [(5, 2, 'tric'), (6, 1, 'hex558'), (5, 1, 'rhomb60'), (3, 2, 'rand_a'), (4, 1, 'rand_b')]
    ext = [(2, 1, 'cubic5', 0), (2, 1, 'tric', 1)] if tier == 'quick' else \
          [(2, 1, 'cubic5', 0), (2, 1, 'tric', 1), (2, 2, 'hex558', 0), (3, 1, 'mono567b110', 2), (1, 2, 'rhomb60', 1)]
    return [dict(name=f'msd_T{T}_A{A}_{lat}', fn='msd_job', params=dict(T=T, A=A, lattice=lat, dims=[1, 2, 3])) for T, A, lat in cfg] + \
           [dict(name=f'msd_after_extend_T{a}+{b}_{lat}_axis{ax}', fn='extend_job', params=dict(T1=a, T2=b, lattice=lat, axis=ax, dims=[1, 2, 3]))
            for a, b, lat, ax in ext]
