"""C01 - periodic positions / displacements: wrapped, minimum image, lattice-shift invariant.

exec (unmodified): gemdat.trajectory.Trajectory.__init__/to_positions/positions/
displacements/cumulative_displacements/distances_from_base_position/_lengths, pymatgen
Trajectory.to_positions/to_displacements (their module-global np proxied), and the range
assertions of gemdat.volume.trajectory_to_volume.
"""
from __future__ import annotations

from fractions import Fraction as F

import numpy as np

from symgem import core, fp, pool
from symgem.core import assume, conj, disj, event, implies, ite, prove, sample, sfloor, sym_int, sym_real
from symgem.core import prove_isolated
from symgem.runner import symbolic_job
from symgem.stubs import rat_array
from symgem.symnp import Patches, S

PROPERTY = 'C01'

BOUNDS = {
    'quick': 'REAL mode: (T,A) in {(1,1),(2,1),(3,1),(2,2),(3,2)}, coordinates any reals in [-2,3], integer shifts in [-2,2] per '
             'coordinate; metric/length identity on 4 pool lattices (T=3, A=1); FP mode (binary64, all finite doubles): wrap range, '
             'idempotence of .positions, minimum-image range of one displacement component',
    'thorough': 'REAL: additionally (4,1),(4,2),(3,3); length identity on all 11 pool lattices; FP as quick plus the displacement of two symbolic doubles',
}
OUTSIDE = ['floating-point rounding of cumulative sums and of the metric-tensor product (REAL mode reads floats as the reals they denote)',
           'frame/atom counts above the bound', 'half-cell ties for shift invariance (see assumptions)']
ASSUMPTIONS = [
    'REAL mode: Python floats are read as exact reals; lattice.metric_tensor is taken as M M^T exactly (pymatgen definition)',
    'shift invariance: no component of a raw step lies exactly on a half-cell tie (frac(dx) != 1/2): there the minimum image is '
    'not unique and np.around breaks the tie by parity',
    'FP mode: np.mod(x,1) follows numpy npy_divmod (exact fmod, then one round-to-nearest add when signs differ)',
]
STUBS = ['pymatgen Lattice.metric_tensor -> exact M M^T (REAL mode)', 'np.mod / np.around / np.sqrt on symbolic elements (symgem.symnp)']


def is_int(v):
    return sfloor(v) == v


def _traj(gt, coords, lattice, **kw):
    A = coords.shape[1]
    return gt.Trajectory(species=['Li'] * A, coords=coords, lattice=lattice, time_step=1e-15,
                         metadata={'temperature': 300}, **kw)


def _patches(p):
    import gemdat.trajectory as gt
    import gemdat.volume as gv
    import pymatgen.core.trajectory as pt
    p.np(gt, pt, gv)
    return gt, gv


def _coords(T, A, inputs=None, prefix='x'):
    if inputs is None:
        return S([[[sym_real(f'{prefix}_{t}_{a}_{c}', -2, 3) for c in range(3)] for a in range(A)] for t in range(T)])
    return np.array([[[float(inputs[f'{prefix}_{t}_{a}_{c}']) for c in range(3)] for a in range(A)] for t in range(T)])


# --------------------------------------------------------------------------- REAL: wrap / min image / shift


def wrap_job(params):
    T, A = params['T'], params['A']
    M = pool.lattice_matrices()['tric']

    def body():
        with Patches() as p:
            gt, gv = _patches(p)
            x = _coords(T, A)
            k = S([[[sym_int(f'k_{t}_{a}_{c}', -2, 2) for c in range(3)] for a in range(A)] for t in range(T)])
            tr1 = _traj(gt, x.copy(), M)
            pos = tr1.positions.copy()
            for idx in np.ndindex(pos.shape):
                prove_isolated('positions in [0,1)', conj([pos[idx] >= 0, pos[idx] < 1]))
                prove_isolated('positions = input up to whole lattice translations', is_int(pos[idx] - x[idx]))
            # the range assertions of trajectory_to_volume
            flat = tr1.positions.reshape(-1, 3)
            prove('trajectory_to_volume range assertions hold', conj([flat.min() >= 0, flat.max() < 1]))
            disp = tr1.displacements.copy()
            for idx in np.ndindex(disp.shape):
                t = idx[0]
                prove_isolated('displacement component in [-1/2,1/2]', conj([disp[idx] >= F(-1, 2), disp[idx] <= F(1, 2)]))
                if t == 0:
                    prove('displacement of frame 0 is zero', disp[idx] == 0)
                else:
                    prev = (t - 1,) + idx[1:]
                    prove_isolated('displacement = step up to whole lattice translations', is_int(disp[idx] - (x[idx] - x[prev])))
            # lattice-shift invariance, step by step (lemma A): the minimum-image step computed from the shifted raw
            # coordinates equals the one computed from the wrapped unshifted coordinates
            noties = {}
            for a in range(A):
                for c in range(3):
                    noties[(a, c)] = {}
                    for t in range(1, T):
                        d = x[t, a, c] - x[t - 1, a, c]
                        nt = d - sfloor(d) != F(1, 2)
                        assume(nt)
                        noties[(a, c)][t] = nt
            tr2 = _traj(gt, x + k, M)
            disp2 = tr2.displacements.copy()
            for idx in np.ndindex(disp.shape):
                t = idx[0]
                prove_isolated('minimum-image step invariant under whole-lattice shifts', disp2[idx] == disp[idx],
                               given=[noties[idx[1:]][t]] if t > 0 else [])
            # compositional cut (justified by the two integrality lemmas above): steps = raw step + fresh integer
            E = disp.copy()
            for idx in np.ndindex(E.shape):
                if idx[0] > 0:
                    prev = (idx[0] - 1,) + idx[1:]
                    E[idx] = x[idx] - x[prev] + core.fresh_int('n')
            core.ctx().notes.append('cut: displacement[t] := x[t]-x[t-1]+n_t (fresh integers), justified by the proved lemma '
                                    '"displacement = step up to whole lattice translations"; both trajectories then share the '
                                    'same step array, justified by the lemma "minimum-image step invariant under shifts"')
            tr1.coords = E.copy()
            tr2.coords = E.copy()
            cum = tr1.cumulative_displacements
            cum2 = tr2.cumulative_displacements
            pos2 = tr1.positions
            pos3 = tr2.positions
            for idx in np.ndindex(cum.shape):
                first = (0,) + idx[1:]
                prove_isolated('first frame + running sum of displacements reproduces every frame modulo 1',
                               is_int(x[first] + cum[idx] - pos2[idx]))
                prove_isolated('positions unchanged by the displacement round trip', pos2[idx] == pos[idx])
                prove_isolated('cumulative displacements invariant under whole-lattice shifts', cum2[idx] == cum[idx])
                prove_isolated('positions invariant under whole-lattice shifts', pos3[idx] == pos[idx])
            sample(dict(T=T, A=A))

    return symbolic_job(params, body, wrap_job_replay)


def wrap_job_replay(params, inputs):
    import gemdat.trajectory as gt
    T, A = params['T'], params['A']
    M = pool.lattice_matrices()['tric']
    x = _coords(T, A, inputs)
    k = np.array([[[int(inputs.get(f'k_{t}_{a}_{c}', 0)) for c in range(3)] for a in range(A)] for t in range(T)])
    eps = 1e-9
    tr1 = _traj(gt, x.copy(), M)
    pos = tr1.positions.copy()
    if pos.min() < 0 or pos.max() >= 1:
        return False, f'positions outside [0,1): min {pos.min()} max {pos.max()} for x={x.tolist()}'
    if np.abs((pos - x) - np.round(pos - x)).max() > eps:
        return False, f'positions differ from input by a non-integer; x={x.tolist()}'
    disp = tr1.displacements.copy()
    if np.abs(disp).max() > 0.5 + eps or np.abs(disp[0]).max() > 0:
        return False, f'displacements not minimum-image: {disp.tolist()}'
    if T > 1:
        raw = x[1:] - x[:-1]
        if np.abs((disp[1:] - raw) - np.round(disp[1:] - raw)).max() > eps:
            return False, f'displacement differs from raw step by a non-integer; x={x.tolist()}'
    cum = tr1.cumulative_displacements
    rec = x[0][None] + cum - tr1.positions
    if np.abs(rec - np.round(rec)).max() > eps:
        return False, f'first frame + running sum does not reproduce frames modulo 1; x={x.tolist()}'
    # shift invariance, away from half-cell ties
    if T > 1:
        fr = (x[1:] - x[:-1]) - np.floor(x[1:] - x[:-1])
        if np.abs(fr - 0.5).min() < 1e-6:
            return True, 'tie: outside the claim'
    tr2 = _traj(gt, x + k, M)
    if np.abs(tr2.cumulative_displacements - cum).max() > eps:
        return False, f'cumulative displacements change under lattice shifts k={k.tolist()}; x={x.tolist()}'
    dpos = tr2.positions - pos
    dpos = np.minimum(np.abs(dpos), 1 - np.abs(dpos))  # positions compared on the circle (rounding at the face)
    if dpos.max() > eps:
        return False, f'positions change under lattice shifts k={k.tolist()}; x={x.tolist()}'
    return True, 'ok'


# --------------------------------------------------------------------------- REAL: lengths via metric tensor


def length_job(params):
    T, A, lat = params['T'], params['A'], params['lattice']
    M = pool.lattice_matrices()[lat]
    Mr = np.asarray(rat_array(M))

    def body():
        from pymatgen.core import Lattice
        with Patches() as p:
            gt, gv = _patches(p)
            Gr = np.dot(Mr, Mr.T)
            p.set(Lattice, 'metric_tensor', property(lambda self: Gr.view(type(rat_array(M)))))
            d = S([[[sym_real(f'd_{t}_{a}_{c}', F(-1, 2), F(1, 2)) for c in range(3)] for a in range(A)] for t in range(T)])
            b = S([[sym_real(f'b_{a}_{c}', 0, 1, hi_strict=True) for c in range(3)] for a in range(A)])
            for a in range(A):
                for c in range(3):
                    assume(d[0, a, c] == 0)
            tr = _traj(gt, d.copy(), M, coords_are_displacement=True, base_positions=b)
            cum = tr.cumulative_displacements
            dist = tr.distances_from_base_position()
            prove('distance array shape (atoms, frames)', tuple(dist.shape) == (A, T))
            for a in range(A):
                for t in range(T):
                    c = [core.ssum([d[s, a, i] for s in range(t + 1)]) for i in range(3)]
                    prove('cumulative displacement = running sum of steps', conj([cum[t, a, i] == c[i] for i in range(3)]))
                    cart = [core.ssum([c[i] * Mr[i][j] for i in range(3)]) for j in range(3)]
                    q = core.ssum([v * v for v in cart])
                    got = dist[a, t]
                    gq = got ** 2
                    prove('distance^2 from start = Cartesian length^2 of the unwrapped displacement', gq == q)
            sample(dict(T=T, A=A, lattice=lat))

    return symbolic_job(params, body, length_job_replay)


def length_job_replay(params, inputs):
    import gemdat.trajectory as gt
    T, A, lat = params['T'], params['A'], params['lattice']
    M = pool.lattice_matrices()[lat]
    d = _coords(T, A, inputs, prefix='d')
    b = np.array([[float(inputs[f'b_{a}_{c}']) for c in range(3)] for a in range(A)])
    tr = _traj(gt, d.copy(), M, coords_are_displacement=True, base_positions=b)
    dist = tr.distances_from_base_position()
    cum = np.cumsum(d, axis=0)
    exp = np.linalg.norm(cum @ M, axis=-1).T
    if dist.shape != exp.shape or np.abs(dist - exp).max() > 1e-9 * (1 + np.abs(exp).max()):
        return False, f'distances {dist.tolist()} != Cartesian lengths {exp.tolist()} lattice={lat} d={d.tolist()}'
    return True, 'ok'


# --------------------------------------------------------------------------- FP: binary64 kernels


def fp_job(params):
    kind = params['kind']
    M = np.eye(3) * 5.0

    def body():
        with Patches() as p:
            gt, gv = _patches(p)
            if kind == 'wrap':
                x = fp.sym_f64('x')
                coords = S([[[x, 0.25, 0.5]]])
                tr = _traj(gt, coords, M)
                pos = tr.positions
                v1 = pos[0, 0, 0]
                prove_isolated('float64: reported position is >= 0', v1 >= 0.0, timeout_ms=300000)
                prove_isolated('float64: reported position is < 1', v1 < 1.0, timeout_ms=300000)
                pos_b = tr.positions
                v2 = pos_b[0, 0, 0]
                prove_isolated('float64: .positions is idempotent bit-for-bit', v2.same_bits(v1) if isinstance(v2, fp.SF64) else v2 == v1,
                               timeout_ms=300000)
                flat = tr.positions.reshape(-1, 3)
                prove_isolated('float64: trajectory_to_volume range assertions hold', conj([flat.min() >= 0, flat.max() < 1]), timeout_ms=300000)
                sample(dict(kind=kind))
            elif kind == 'disp':
                # one displacement component of two wrapped doubles: d - around(d) in [-1/2, 1/2]
                a, b = fp.sym_f64('a'), fp.sym_f64('b')
                assume(conj([a >= 0.0, a < 1.0, b >= 0.0, b < 1.0]))
                coords = S([[[a, 0.25, 0.5]], [[b, 0.25, 0.5]]])
                tr = _traj(gt, coords, M)
                d = tr.displacements[1, 0, 0]
                prove_isolated('float64: displacement component in [-1/2,1/2]', conj([d >= -0.5, d <= 0.5]), given=[conj([a >= 0.0, a < 1.0, b >= 0.0, b < 1.0])],
                               timeout_ms=600000)
                sample(dict(kind=kind))

    return symbolic_job(params, body, fp_job_replay, timeout_ms=600000)


def fp_job_replay(params, inputs):
    import gemdat.trajectory as gt
    kind = params['kind']
    M = np.eye(3) * 5.0
    if kind == 'wrap':
        x = float(inputs['x'])
        tr = _traj(gt, np.array([[[x, 0.25, 0.5]]]), M)
        v1 = float(tr.positions[0, 0, 0])
        v2 = float(tr.positions[0, 0, 0])
        if not (0.0 <= v1 < 1.0):
            return False, f'positions of x={x!r} gives {v1!r}, outside [0,1)'
        if v1 != v2:
            return False, f'positions not idempotent for x={x!r}: {v1!r} then {v2!r}'
        return True, 'ok'
    a, b = float(inputs['a']), float(inputs['b'])
    tr = _traj(gt, np.array([[[a, 0.25, 0.5]], [[b, 0.25, 0.5]]]), M)
    d = float(tr.displacements[1, 0, 0])
    return (-0.5 <= d <= 0.5), f'displacement {d!r} for a={a!r} b={b!r}'


def after_correction_job(params):
    """Positions / displacements / cumulative displacements / distances of a trajectory are the same before and after
    `apply_drift_correction()` has been called on it (the correction returns a new object)."""
    from harness import c13
    T, A = params['T'], 4
    M = pool.lattice_matrices()['tric']

    def body():
        import gemdat.trajectory as gt
        import pymatgen.core.trajectory as pt
        with Patches() as p:
            p.np(gt, pt)
            lo, hi = F(-1, 2), F(1, 2)
            d = S([[[0 if t == 0 else sym_real(f'd_{t}_{a}_{c}', lo, hi, lo_strict=True, hi_strict=True) for c in range(3)]
                    for a in range(A)] for t in range(T)])
            b = S([[sym_real(f'b_{a}_{c}', 0, 1, hi_strict=True) for c in range(3)] for a in range(A)])
            L = c13._lemma_recompute(gt, 'Species', d, b, M, {})
            tr = c13._mk(gt, 'Species', d.copy(), b.copy(), M)
            cum0 = tr.cumulative_displacements.copy()
            tr.apply_drift_correction(fixed_species='Si')
            D = tr.displacements
            cum1 = tr.cumulative_displacements
            for idx in np.ndindex(D.shape):
                prove_isolated('steps of the source unchanged after a drift correction was computed from it', D[idx] == d[idx],
                               given=L[idx[2]], timeout_ms=60000)
                prove_isolated('cumulative displacements of the source unchanged', cum1[idx] == cum0[idx], given=L[idx[2]], timeout_ms=60000)
            sample(dict(T=T))

    return symbolic_job(params, body, after_correction_replay)


def after_correction_replay(params, inputs):
    import gemdat.trajectory as gt
    from harness import c13
    T, A = params['T'], 4
    M = pool.lattice_matrices()['tric']
    d = np.array([[[0.0 if t == 0 else float(inputs[f'd_{t}_{a}_{c}']) for c in range(3)] for a in range(A)] for t in range(T)])
    b = np.array([[float(inputs[f'b_{a}_{c}']) for c in range(3)] for a in range(A)])
    tr = c13._mk(gt, 'Species', d.copy(), b.copy(), M)
    pos0, dist0 = tr.positions.copy(), tr.distances_from_base_position().copy()
    tr.apply_drift_correction(fixed_species='Si')
    dp = np.abs(tr.positions - pos0)
    ok = np.abs(tr.displacements - d).max() < 1e-9 and np.minimum(dp, 1 - dp).max() < 1e-9 and np.abs(tr.distances_from_base_position() - dist0).max() < 1e-9
    return ok, f'source trajectory differs after apply_drift_correction; d={d.tolist()}'


REPLAYS = dict(wrap_job=wrap_job_replay, length_job=length_job_replay, fp_job=fp_job_replay, after_correction_job=after_correction_replay)


def jobs(tier, seed):
    js = []
    if tier == 'quick':
        shapes = [(1, 1), (2, 1), (3, 1), (2, 2), (3, 2)]
        lats = ['cubic5', 'hex558', 'tric', 'cubic5_rotz']
        fps = ['wrap']
    else:
        shapes = [(1, 1), (2, 1), (3, 1), (2, 2), (3, 2), (4, 1), (4, 2), (3, 3)]
        lats = pool.ALL_LATTICES + ['rand_a', 'rand_b']
        fps = ['wrap', 'disp']
    for T, A in shapes:
        js.append(dict(name=f'wrap_T{T}_A{A}', fn='wrap_job', params=dict(T=T, A=A)))
    for lat in lats:
        js.append(dict(name=f'length_{lat}', fn='length_job', params=dict(T=3, A=1, lattice=lat)))
    for k in fps:
        js.append(dict(name=f'fp_{k}', fn='fp_job', params=dict(kind=k)))
    for T in ((2,) if tier == 'quick' else (2, 3)):
        js.append(dict(name=f'source_after_drift_correction_T{T}', fn='after_correction_job', params=dict(T=T)))
    return js
