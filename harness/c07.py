"""C07 - results depend only on geometry: orientation, origin and labelling invariance.

Relational harnesses: the real code is executed on an input and on its transform, and the relation between the two results is
the obligation.  They reuse the harness machinery of C02 (site states), C03/C04 (events, jumps), C05 (matrices, jump
diffusivity), C08 (density volume), C10 (optimal path), C12 (collective pairs).
"""
from __future__ import annotations

import itertools
from fractions import Fraction as F

import numpy as np
import pandas as pd

from symgem import core, pool
from symgem.core import assume, conj, disj, event, implies, ite, prove, sample, sym_int, sym_real
from symgem.runner import symbolic_job
from symgem.symnp import Patches, S

from harness import c02, c04, c05, c08, c10

PROPERTY = 'C07'
NOSITE = -1

BOUNDS = {
    'quick': 'rotation: site states of an atom anywhere on a face-hugging line, cubic5 vs cubic5_rotz and hex558 vs hex558_rotz; jump diffusivity '
             '(k<=3 symbolic jumps) on the same pairs; origin shift: site states with atoms and sites translated by 3 concrete fractional vectors '
             '(sites pushed through faces) on cubic5; density volume rolled for shifts by whole voxels (k=2 samples, grid 2x2x3); optimal path cost under '
             'grid roll on (2,2,1), (3,2,1); relabelling: jumps of 2 atoms under atom permutation (T<=4, default and inner/residence), count matrix under every '
             'permutation of 3 sites (k<=3 events)',
    'thorough': 'additionally ortho457 vs ortho457_rot180, mono/tric shifts, T=5 permutations, 4 sites',
}
OUTSIDE = ['metrics that need the attempt frequency', 'percolating paths under roll', 'radial distributions under rotation (distances come from the same contract on both sides)',
           'arbitrary rotations / translations: rotations and shift vectors are concrete pool members, data are symbolic']
ASSUMPTIONS = ['as in C02 / C04 / C05 / C08 / C10 for the reused bodies', 'rotated pool lattices are exact rational rotations of the unrotated ones up to 1e-9 rounding of the matrix']
STUBS = ['see C02, C05, C08, C10']


# --------------------------------------------------------------------------- rotation / origin shift of site states


def _states(gt, gtr, M, sites_coords, labels, xs, r):
    from pymatgen.core import Lattice, Species, Structure
    tr = gt.Trajectory(species=[Species('Li')], coords=S([[x] for x in xs]), lattice=M, time_step=1e-15, metadata={})
    sites = Structure(Lattice(M), ['Li'] * len(sites_coords), sites_coords, labels=labels)
    outer = gtr._calculate_atom_states(sites=sites, trajectory=tr, site_radius={'': r})
    inner = gtr._calculate_atom_states(sites=sites, trajectory=tr, site_radius={'': r}, site_inner_fraction=0.5)
    return [int(v) for v in outer.ravel()], [int(v) for v in inner.ravel()]


def _line_point(line, sym):
    fixed = list(line[1])
    return [sym if c == line[0] else core.rat(fixed.pop(0)) for c in range(3)]


def states_relation_job(params):
    kind, lat, line = params['kind'], params['lattice'], params['line']
    M = pool.lattice_matrices()[lat]
    sep = min(pool.min_image_dist(M, c02.SITES[i], c02.SITES[j]) for i in range(3) for j in range(i + 1, 3))
    r = round(0.45 * sep, 3)

    def body():
        with Patches() as p:
            gt, gtr = c02._patch(p, lat)
            s = sym_real('x', 0, 1, hi_strict=True)
            x = _line_point(line, s)
            # band: the atom is not within 1e-5 A of the surface of a site sphere (outer or inner), where rounding of the
            # translated / rotated coordinates decides
            from pymatgen.core import Lattice
            from symgem.stubs import LatticeProxy
            LPo = LatticeProxy(Lattice(M))
            eps = F(1, 10 ** 5)
            for sc in c02.SITES:
                q = LPo.dist2_generic(x, [core.rat(v) for v in sc])
                for rr in (core.rat(r), core.rat(r) / 2):
                    assume(disj([q < (rr - eps) ** 2, q > (rr + eps) ** 2]))
            base = _states(gt, gtr, M, c02.SITES, c02.LABELS, [x], r)
            if kind == 'rotation':
                M2 = pool.lattice_matrices()[params['rotated']]
                other = _states(gt, gtr, M2, c02.SITES, c02.LABELS, [x], r)
                prove('site states identical after rigidly rotating the lattice vectors (same fractional coordinates)', base == other,
                      detail=dict(base=base, rotated=other))
            else:
                tau = [core.rat(v) for v in params['tau']]
                # translate atoms and sites together and wrap them back into the cell
                x2 = [(x[c] + tau[c]) - core.sfloor(x[c] + tau[c]) for c in range(3)]
                sites2 = [[float((F(repr(v)) + F(repr(t))) % 1) for v, t in zip(sc, params['tau'])] for sc in c02.SITES]
                other = _states(gt, gtr, M, sites2, c02.LABELS, [x2], r)
                prove('site states identical after translating all atoms and sites together through the cell faces', base == other,
                      detail=dict(base=base, shifted=other))
            sample(dict(kind=kind, lattice=lat, states=base))

    return symbolic_job(params, body, states_relation_replay, timeout_ms=300000)


def states_relation_replay(params, inputs):
    import gemdat.trajectory as gt
    import gemdat.transitions as gtr
    from pymatgen.core import Lattice, Species, Structure
    kind, lat, line = params['kind'], params['lattice'], params['line']
    M = np.asarray(pool.lattice_matrices()[lat], dtype=float)
    sep = min(pool.min_image_dist(M, c02.SITES[i], c02.SITES[j]) for i in range(3) for j in range(i + 1, 3))
    r = round(0.45 * sep, 3)
    fixed = list(line[1])
    x = [float(inputs['x']) if c == line[0] else float(fixed.pop(0)) for c in range(3)]

    def run(MM, sites_c, xx):
        tr = gt.Trajectory(species=[Species('Li')], coords=np.array([[xx]]), lattice=MM, time_step=1e-15, metadata={})
        sites = Structure(Lattice(MM), ['Li'] * 3, sites_c, labels=c02.LABELS)
        import warnings
        with warnings.catch_warnings():
            warnings.simplefilter('ignore')
            o = gtr._calculate_atom_states(sites=sites, trajectory=tr, site_radius={'': r})
            i = gtr._calculate_atom_states(sites=sites, trajectory=tr, site_radius={'': r}, site_inner_fraction=0.5)
        return [int(v) for v in o.ravel()], [int(v) for v in i.ravel()]
    d = [pool.min_image_dist(M, x, s) for s in c02.SITES]
    if any(abs(v - r) < 1e-5 or abs(v - 0.5 * r) < 1e-5 for v in d):
        return True, 'distance on the radius: outside the band'
    base = run(M, c02.SITES, x)
    if kind == 'rotation':
        other = run(np.asarray(pool.lattice_matrices()[params['rotated']], dtype=float), c02.SITES, x)
    else:
        tau = params['tau']
        other = run(M, [[(v + t) % 1 for v, t in zip(sc, tau)] for sc in c02.SITES], [(v + t) % 1 for v, t in zip(x, tau)])
    return base == other, f'{kind}: states {base} vs {other}; lattice={lat} x={x} r={r}'


# --------------------------------------------------------------------------- rotation: jump diffusivity / collective geometry


def rot_diffusivity_job(params):
    lat, rot, k = params['lattice'], params['rotated'], params['k']
    coords, labels = pool.SITE_SETS['three']
    n = len(coords)

    def body():
        import gemdat.jumps as jm
        import gemdat.transitions as tr
        with Patches() as p:
            p.np(tr, jm)
            p.set(jm, 'FloatWithUnit', lambda x, unit: x)
            df, rows = c05._events_df(k, n, 0)
            df['start time'] = df['time']
            df['stop time'] = df['time'] + 1
            for s_, d_ in rows:
                assume(s_ != d_)
            vals = []
            for L in (lat, rot):
                j, sites = c05._jumps_obj(jm, tr, df, L, 'three', 2, 7e-12)
                vals.append(jm.Jumps.jump_diffusivity.__wrapped__(j, 3))
            scale = core.rat(25.0 * k * 1e-20 / (2 * 3 * 2 * 7e-12))
            prove('jump diffusivity identical after rotating the lattice', conj([vals[0] - vals[1] <= scale * F(1, 10 ** 8), vals[1] - vals[0] <= scale * F(1, 10 ** 8)]))
            # geometry only: pairwise site distances (hence collective-jump closeness) identical
            M1, M2 = pool.lattice_matrices()[lat], pool.lattice_matrices()[rot]
            ok = all(abs(pool.min_image_dist(M1, coords[a], coords[b]) - pool.min_image_dist(M2, coords[a], coords[b])) < 1e-7 for a in range(n) for b in range(n))
            prove('pairwise minimum-image site distances identical after rotation', ok)
            sample(dict(lattice=lat, rotated=rot, k=k))

    return symbolic_job(params, body, None)


# --------------------------------------------------------------------------- relabelling


def perm_jumps_job(params):
    T, mode, m = params['T'], params['mode'], params.get('m', 0)
    A = 2

    def body():
        import gemdat.jumps as jm
        import gemdat.transitions as tr
        s = S([[sym_int(f's_{t}_{a}', NOSITE, 2) for a in range(A)] for t in range(T)])
        if mode == 'default':
            i = s
        else:
            i = S([[sym_int(f'i_{t}_{a}', NOSITE, 2) for a in range(A)] for t in range(T)])
            for t in range(T):
                for a in range(A):
                    assume((i[t, a] == NOSITE) | (i[t, a] == s[t, a]))
        assume(disj([s[t, a] != s[t + 1, a] for t in range(T - 1) for a in range(A)]))
        res = []
        for perm in ([0, 1], [1, 0]):
            try:
                ev = tr._calculate_transition_events(atom_sites=s[:, perm], atom_inner_sites=i[:, perm])
                rows, _ = c04._convert(jm, ev, m)
            except Exception as e:
                event(f'exception:{type(e).__name__}', detail=str(e)[:100])
                return
            # relabel atoms back to the original numbering
            res.append(sorted((perm[r[0]], r[3], r[4]) for r in rows))
            res.append({(perm[r[0]], r[3], r[4]): (r[1], r[2]) for r in rows})
        prove('jumps (atom, start, stop) identical up to relabelling after permuting the atoms', res[0] == res[2], detail=dict(a=res[0], b=res[2]))
        if res[0] == res[2]:
            prove('... with the same origin and destination', conj([conj([res[1][k][0] == res[3][k][0], res[1][k][1] == res[3][k][1]]) for k in res[1]]))
        sample(dict(T=T, mode=mode, jumps=len(res[0])))

    sp = params.get('split')
    return symbolic_job(params, body, perm_jumps_replay, split=tuple(sp) if sp else None)


def perm_jumps_replay(params, inputs):
    import gemdat.jumps as jm
    import gemdat.transitions as tr
    T, mode, m = params['T'], params['mode'], params.get('m', 0)
    s = np.array([[int(inputs[f's_{t}_{a}']) for a in range(2)] for t in range(T)])
    i = s.copy() if mode == 'default' else np.array([[int(inputs.get(f'i_{t}_{a}', -1)) for a in range(2)] for t in range(T)])
    out = []
    for perm in ([0, 1], [1, 0]):
        ev = tr._calculate_transition_events(atom_sites=s[:, perm], atom_inner_sites=i[:, perm])
        try:
            df = jm._generic_transitions_to_jumps(c04._Tr(ev), minimal_residence=m)
            rows = sorted((perm[int(r[0])], int(r[1]), int(r[2]), int(r[3]), int(r[4])) for r in
                          df[['atom index', 'start site', 'destination site', 'start time', 'stop time']].values.tolist())
        except ValueError:
            rows = []
        out.append(rows)
    return out[0] == out[1], f'jumps {out[0]} vs after swapping the atoms {out[1]}; states={s.T.tolist()} inner={i.T.tolist()}'


def perm_sites_jumps_job(params):
    """Relabelling the sites (a permutation of the site indices, NOSITE fixed) relabels origins/destinations of the jumps
    and changes nothing else."""
    T, mode, m, perm = params['T'], params['mode'], params.get('m', 0), params['perm']

    def relabel(v):
        return core.ssum([ite(v == a, perm[a], 0) for a in range(3)]) + ite(v == NOSITE, NOSITE, 0)

    def body():
        import gemdat.jumps as jm
        import gemdat.transitions as tr
        s = S([[sym_int(f's_{t}_0', NOSITE, 2)] for t in range(T)])
        if mode == 'default':
            i = s
        else:
            i = S([[sym_int(f'i_{t}_0', NOSITE, 2)] for t in range(T)])
            for t in range(T):
                assume((i[t, 0] == NOSITE) | (i[t, 0] == s[t, 0]))
        assume(disj([s[t, 0] != s[t + 1, 0] for t in range(T - 1)]))
        s2 = S([[relabel(s[t, 0])] for t in range(T)])
        i2 = s2 if mode == 'default' else S([[relabel(i[t, 0])] for t in range(T)])
        out = []
        for (ss, ii) in ((s, i), (s2, i2)):
            try:
                ev = tr._calculate_transition_events(atom_sites=ss, atom_inner_sites=ii)
                rows, _ = c04._convert(jm, ev, m)
            except Exception as e:
                event(f'exception:{type(e).__name__}', detail=str(e)[:100])
                return
            out.append({(r[0], r[3], r[4]): (r[1], r[2]) for r in rows})
        prove('same jumps (atom, start, stop) after relabelling the sites', sorted(out[0]) == sorted(out[1]),
              detail=dict(original=sorted(out[0]), relabelled=sorted(out[1])))
        if sorted(out[0]) == sorted(out[1]):
            prove('origin / destination relabelled consistently',
                  conj([conj([out[1][k][0] == relabel(out[0][k][0]), out[1][k][1] == relabel(out[0][k][1])]) for k in out[0]]))
        sample(dict(T=T, mode=mode, perm=perm, jumps=len(out[0])))

    return symbolic_job(params, body, perm_sites_jumps_replay)


def perm_sites_jumps_replay(params, inputs):
    import gemdat.jumps as jm
    import gemdat.transitions as tr
    T, mode, m, perm = params['T'], params['mode'], params.get('m', 0), params['perm']
    s = np.array([[int(inputs[f's_{t}_0'])] for t in range(T)])
    i = s.copy() if mode == 'default' else np.array([[int(inputs.get(f'i_{t}_0', -1))] for t in range(T)])
    rl = np.vectorize(lambda v: v if v < 0 else perm[v])
    out = []
    for (ss, ii) in ((s, i), (rl(s), rl(i))):
        ev = tr._calculate_transition_events(atom_sites=ss, atom_inner_sites=ii)
        try:
            df = jm._generic_transitions_to_jumps(c04._Tr(ev), minimal_residence=m)
            rows = sorted((int(r[0]), int(r[1]), int(r[2]), int(r[3]), int(r[4])) for r in
                          df[['atom index', 'start site', 'destination site', 'start time', 'stop time']].values.tolist())
        except ValueError:
            rows = []
        out.append(rows)
    exp = sorted((a, perm[o], perm[d_], t1, t2) for a, o, d_, t1, t2 in out[0])
    return exp == out[1], f'jumps {out[0]} relabelled by {perm} should be {exp}, got {out[1]}; states={s.T.tolist()} inner={i.T.tolist()}'


def perm_matrix_job(params):
    k, n = params['k'], params['n']

    def body():
        import gemdat.transitions as tr
        with Patches() as p:
            p.np(tr)
            df, rows = c05._events_df(k, n, 0)
            M = tr._calculate_transitions_matrix(df, n_sites=n)
            for perm in itertools.permutations(range(n)):
                if list(perm) == list(range(n)):
                    continue
                df2, _ = c05._events_df(k, n, 0)
                for col in ('start site', 'destination site'):
                    df2[col] = [core.ssum([ite(v == a, perm[a], 0) for a in range(n)]) for v in df2[col].tolist()]
                M2 = tr._calculate_transitions_matrix(df2, n_sites=n)
                prove('count matrix permuted consistently when the sites are relabelled',
                      conj([M2[perm[a], perm[b]] == M[a, b] for a in range(n) for b in range(n)]))
            sample(dict(k=k, n=n))

    return symbolic_job(params, body, None)


# --------------------------------------------------------------------------- grids rolled by the shift


def roll_volume_job(params):
    k, lat, res, shift = params['k'], params['lattice'], params['resolution'], params['shift']
    M = pool.lattice_matrices()[lat]

    def body():
        import gemdat.volume as gv
        from pymatgen.core import Lattice
        with Patches() as p:
            p.np(gv)
            n = [int(Li // res) for Li in Lattice(M).lengths]
            x = S([[[sym_real(f'x_{s}_{c}', 0, 1, hi_strict=True) for c in range(3)]] for s in range(k)])
            tau = [F(shift[c], n[c]) for c in range(3)]
            x2 = S([[[(x[s, 0, c] + tau[c]) - core.sfloor(x[s, 0, c] + tau[c]) for c in range(3)]] for s in range(k)])
            v1 = np.asarray(gv.trajectory_to_volume(c08._FakeTraj(x, M), resolution=res).data, dtype=object)
            v2 = np.asarray(gv.trajectory_to_volume(c08._FakeTraj(x2, M), resolution=res).data, dtype=object)
            prove('same grid', v1.shape == v2.shape == tuple(n))
            for v in np.ndindex(v1.shape):
                w = tuple((v[c] + shift[c]) % n[c] for c in range(3))
                prove('density volume rolled by the same shift when all atoms are translated by whole voxels', v2[w] == v1[v])
            sample(dict(grid=n, shift=shift))

    return symbolic_job(params, body, None, timeout_ms=120000)


def roll_path_job(params):
    shape, diagonal, shift = tuple(params['shape']), params['diagonal'], tuple(params['shift'])
    voxels = list(np.ndindex(shape))

    def body():
        with Patches() as p:
            gp, gv, proxy = c10._patch(p)
            e = c10._energies(shape)
            e2 = S(np.roll(np.asarray(e), shift, axis=(0, 1, 2)))
            ti = int(sym_int('stop', 1, len(voxels) - 1))
            s, t = voxels[0], voxels[ti]
            s2 = tuple((s[c] + shift[c]) % shape[c] for c in range(3))
            t2 = tuple((t[c] + shift[c]) % shape[c] for c in range(3))
            import networkx as nx
            out = []
            for (ee, a, b) in ((e, s, t), (e2, s2, t2)):
                fe = gv.FreeEnergyVolume(data=ee, lattice=None)
                G = fe.free_energy_graph(max_energy_threshold=c10.THR, diagonal=diagonal)
                try:
                    pth = fe.optimal_path(F_graph=G, start=a, stop=b, method='dijkstra')
                    sites = [tuple(int(c) for c in v) for v in pth.sites]
                    out.append(('path', core.ssum([(ee[u] + ee[v]) / 2 for u, v in zip(sites, sites[1:])]), pth.total_energy))
                except nx.NodeNotFound:
                    out.append(('nonode', 0, 0))
                except nx.NetworkXNoPath:
                    out.append(('nopath', 0, 0))
            prove('same outcome (path / no path) after rolling the grid with start and stop', out[0][0] == out[1][0])
            if out[0][0] == 'path' and out[1][0] == 'path':
                prove('optimal path cost unchanged when the free-energy grid is rolled', out[0][1] == out[1][1])
            sample(dict(shape=list(shape), shift=list(shift), outcome=out[0][0]))

    return symbolic_job(params, body, None, timeout_ms=120000)


REPLAYS = dict(states_relation_job=states_relation_replay, perm_jumps_job=perm_jumps_replay, perm_sites_jumps_job=perm_sites_jumps_replay)


def jobs(tier, seed):
    js = []
    L = c02.LINES
    if tier == 'quick':
        rot = [('cubic5', 'cubic5_rotz', L[0]), ('hex558', 'hex558_rotz', L[0])]
        shifts = [('cubic5', [0.07, 0.06, 0.95], L[0]), ('cubic5', [0.5, 0.5, 0.5], L[4]), ('cubic5', [0.95, 0.9, 0.05], L[3])]
        pj = [(3, 'default', 0), (4, 'default', 0), (3, 'inner', 0), (3, 'inner', 1)]
        pm = [(2, 3), (3, 3)]
        rv = [(2, 'ortho457', 2.0, [1, 0, 2]), (1, 'ortho457', 1.7, [1, 1, 3])]
        rp = [((2, 2, 1), False, (1, 1, 0)), ((3, 2, 1), False, (2, 1, 0)), ((2, 2, 1), True, (1, 0, 0))]
        rd = [('cubic5', 'cubic5_rotz', 2), ('hex558', 'hex558_rotz', 3)]
    else:
        rot = [('cubic5', 'cubic5_rotz', ln) for ln in L[:3]] + [('hex558', 'hex558_rotz', ln) for ln in L[:3]] + [('ortho457', 'ortho457_rot180', L[0])]
        shifts = [(lat, tau, ln) for lat in ('cubic5', 'hex558', 'mono567b110') for tau, ln in
                  (([0.07, 0.06, 0.95], L[0]), ([0.5, 0.5, 0.5], L[4]), ([0.95, 0.9, 0.05], L[3]))]
        pj = [(3, 'default', 0), (4, 'default', 0), (5, 'default', 0), (3, 'inner', 0), (3, 'inner', 1), (4, 'inner', 1)]
        pm = [(2, 3), (3, 3), (3, 4)]
        rv = [(2, 'ortho457', 2.0, [1, 0, 2]), (1, 'ortho457', 1.7, [1, 1, 3]), (3, 'ortho457', 2.0, [0, 1, 1])]
        rp = [((2, 2, 1), False, (1, 1, 0)), ((3, 2, 1), False, (2, 1, 0)), ((2, 2, 1), True, (1, 0, 0)), ((1, 2, 3), True, (0, 1, 2))]
        rd = [('cubic5', 'cubic5_rotz', 3), ('hex558', 'hex558_rotz', 3), ('ortho457', 'ortho457_rot180', 3)]
    for lat, r, ln in rot:
        js.append(dict(name=f'rotation_states_{lat}_axis{ln[0]}', fn='states_relation_job', params=dict(kind='rotation', lattice=lat, rotated=r, line=ln)))
    for lat, tau, ln in shifts:
        js.append(dict(name=f'shift_states_{lat}_{"_".join(map(str, tau))}', fn='states_relation_job', params=dict(kind='shift', lattice=lat, tau=tau, line=ln)))
    for lat, r, k in rd:
        js.append(dict(name=f'rotation_diffusivity_{lat}_k{k}', fn='rot_diffusivity_job', params=dict(lattice=lat, rotated=r, k=k)))
    for T, mode, m in pj:
        depth = 5 if (T >= 4 and mode == 'inner') or T >= 5 else 0   # ~10^5 paths of pandas code: split over the first free decisions
        for i in range(2 ** depth):
            js.append(dict(name=f'perm_atoms_jumps_T{T}_{mode}_m{m}' + (f'_part{i}of{2 ** depth}' if depth else ''), fn='perm_jumps_job',
                           params=dict(T=T, mode=mode, m=m, split=[i, depth] if depth else None)))
    for k, n in pm:
        js.append(dict(name=f'perm_sites_matrix_k{k}_n{n}', fn='perm_matrix_job', params=dict(k=k, n=n)))
    for T, mode, m, perm in ([(4, 'default', 0, [1, 0, 2]), (4, 'inner', 1, [2, 0, 1])] if tier == 'quick' else
                             [(4, 'default', 0, [1, 0, 2]), (5, 'default', 0, [2, 0, 1]), (4, 'inner', 1, [2, 0, 1]), (5, 'inner', 0, [1, 2, 0])]):
        js.append(dict(name=f'perm_sites_jumps_T{T}_{mode}_m{m}_{"".join(map(str, perm))}', fn='perm_sites_jumps_job',
                       params=dict(T=T, mode=mode, m=m, perm=perm)))
    for k, lat, res, sh in rv:
        js.append(dict(name=f'roll_volume_k{k}_res{res}', fn='roll_volume_job', params=dict(k=k, lattice=lat, resolution=res, shift=sh)))
    for shape, diag, sh in rp:
        js.append(dict(name=f'roll_path_{"x".join(map(str, shape))}_{"diag" if diag else "faces"}', fn='roll_path_job', params=dict(shape=list(shape), diagonal=diag, shift=list(sh))))
    return js
