"""C15 - select / slice / split / extend and read-only queries never alter the data.

exec (unmodified): gemdat.trajectory.Trajectory.__getitem__/filter/split/extend(pymatgen)/
get_lattice/positions/displacements/cumulative_displacements/distances_from_base_position/
metrics().tracer_diffusivity/to_volume, pymatgen to_positions/to_displacements.

Call sequences are programs (enumerated); the data are symbolic (REAL mode).
"""
from __future__ import annotations

import itertools
from fractions import Fraction as F

import numpy as np

from symgem import core, pool
from symgem.core import assume, conj, event, prove, prove_isolated, sample, sfloor, sym_real
from symgem.runner import symbolic_job
from symgem.symnp import Patches, S

PROPERTY = 'C15'

BOUNDS = {
    'quick': 'all call sequences of length <= 2 over {positions, displacements, cumulative_displacements, distances, tracer_diffusivity, '
             'filter, [1:], [::2], [1:3], [::-1], [0:2][0:1], split(2), extend} on a T=4, A=2 (Li,O) trajectory with coordinates any '
             'reals in [-1,2] (start in positions mode) or steps in (-1/2,1/2) + base in [0,1) (start in displacement mode); every '
             'derived trajectory additionally goes through displacements -> positions; to_volume on T=2, A=1; '
             'raw variants: every single call on a positions-mode source whose stored coordinates are still unwrapped (any reals in [-1,2]), '
             'met either directly or after an initial .positions query whose answer must persist',
    'thorough': 'sequences of length <= 3 (first op restricted to mode-changing / deriving ops), T=4, A=2; plus T=5 slices with all (start,stop,step) in range',
}
OUTSIDE = ['integer frame indexing (returns a pymatgen Structure, which cannot hold symbolic coordinates)',
           'float rounding (values are compared exactly as reals, modulo 1 where the statement says so)',
           'mean_squared_displacement inside sequences (covered in C06)']
ASSUMPTIONS = [
    'REAL mode: floats read as reals',
    'oracle: a .positions answer equals the expected frames/atoms modulo 1 (that it also lies in [0,1) is C01), and a later answer of the '
    'same object is exactly the earlier one (stability under read-only queries)',
    'no step of the source lies exactly on a half-cell tie (minimum image not unique there)',
    'compositional cuts: after every call the coordinates held by each trajectory are proved equal to a closed form '
    '(wrapped input, or raw step + integer) and replaced by it, so terms stay shallow; each cut is a discharged obligation',
]
STUBS = ['np.mod / np.around on symbolic elements (symgem.symnp)', 'FloatWithUnit -> identity (metrics)']

SPECIES = ['Li', 'O']
LAT = 'tric'


def is_int(v):
    return sfloor(v) == v


def eq_mod1(a, b):
    """a = b modulo 1 (the equality disjunct lets the solver skip the floor term in the common case)"""
    from symgem.core import disj
    return disj([a == b, is_int(a - b)])


def provably(cond, timeout_ms=5000):
    """True iff `cond` follows from the declared domains of its variables alone (quiet: records no obligation)."""
    import z3
    c = core.ctx()
    p = z3.simplify(core._bt(cond)) if not isinstance(cond, bool) else cond
    if isinstance(p, bool):
        return p
    if z3.is_true(p):
        return True
    if z3.is_false(p):
        return False
    names = {}
    core._free_consts(p, names)
    s = z3.Solver()
    s.set('timeout', timeout_ms)
    for n in names:
        for b in c.bounds.get(n, []):
            s.add(b)
    s.add(z3.Not(p))
    return s.check() == z3.unsat


class World:
    """Tracks, for every live trajectory object, the closed form E (wrapped positions) it must represent."""

    def __init__(self, gt, M):
        self.gt = gt
        self.M = M
        self.meta = {'temperature': 300, 'tag': 'src'}
        self.ref = None   # first answer of the source's .positions (later answers must be identical)

    def make(self, coords, species=SPECIES, **kw):
        from pymatgen.core import Species
        return self.gt.Trajectory(species=[Species(s) for s in species], coords=coords, lattice=self.M, time_step=2e-15,
                                  metadata=self.meta, **kw)

    # -- closed forms -------------------------------------------------------
    def settle(self, Y, E, label):
        """Y must represent wrapped positions E. Whatever mode Y is in, prove it and cut to closed form."""
        if Y.coords_are_displacement:
            D = Y.coords
            T = E.shape[0]
            prove(f'{label}: shape', tuple(D.shape) == tuple(E.shape))
            new = D.copy()
            for idx in np.ndindex(D.shape):
                t = idx[0]
                if t == 0:
                    prove_isolated(f'{label}: step 0 is zero', D[idx] == 0)
                    new[idx] = 0
                else:
                    prev = (t - 1,) + idx[1:]
                    raw = E[idx] - E[prev]
                    prove_isolated(f'{label}: stored step = minimum-image step of the expected frames',
                                   conj([is_int(D[idx] - raw), D[idx] >= F(-1, 2), D[idx] <= F(1, 2)]), timeout_ms=60000)
                    n = core.fresh_int('n')
                    core.cut_symbol(n, [raw + n >= F(-1, 2), raw + n <= F(1, 2)])
                    new[idx] = raw + n
            Y.coords = new
            bp = np.asarray(Y.base_positions, dtype=object)
            for idx in np.ndindex(bp.shape):
                prove_isolated(f'{label}: base position = expected first frame (mod 1)', is_int(bp[idx] - E[(0,) + idx]), timeout_ms=60000)
        else:
            C = Y.coords
            prove(f'{label}: shape', tuple(C.shape) == tuple(E.shape))
            for idx in np.ndindex(E.shape):
                prove_isolated(f'{label}: stored position = expected frame/atom of the source (mod 1)', eq_mod1(C[idx], E[idx]),
                               timeout_ms=60000)
            # cut to the closed form only where the stored value provably IS the wrapped value; coordinates stored unwrapped
            # (legal in positions mode) stay as they are, so later calls see what the real object holds
            if provably(conj([C[idx] == E[idx] for idx in np.ndindex(E.shape)]), timeout_ms=20000):
                Y.coords = E.copy()

    def check_positions(self, Y, E, label, ref=None):
        """`.positions` must equal the expected frames/atoms modulo 1 and, when an earlier answer `ref` of the same object is
        given, be exactly that earlier answer (read-only queries in between change nothing).  Returns the answer."""
        P = Y.positions
        prove(f'{label}: shape', tuple(P.shape) == tuple(E.shape))
        for idx in np.ndindex(E.shape):
            prove_isolated(f'{label}: .positions = expected frames/atoms of the source (mod 1)', eq_mod1(P[idx], E[idx]), timeout_ms=60000)
            if ref is not None:
                prove_isolated(f'{label}: .positions returns exactly what it returned before the read-only queries', P[idx] == ref[idx],
                               timeout_ms=60000)
        snap = P.copy()
        if provably(conj([P[idx] == E[idx] for idx in np.ndindex(E.shape)]), timeout_ms=20000):
            Y.coords = E.copy()
        return snap

    def check_meta(self, Z, species, label):
        prove(f'{label}: species, lattice, time step, metadata preserved',
              [str(s) for s in Z.species] == [str(s) for s in species]
              and np.array_equal(np.asarray(Z.get_lattice().matrix, dtype=float), np.asarray(self.M, dtype=float))
              and Z.time_step == 2e-15 and Z.metadata == self.meta)

    def roundtrip(self, Z, E, label):
        """Read-only queries on a derived object must not change what it returns."""
        first = self.check_positions(Z, E, label + ' (fresh)')
        Z.displacements
        self.settle(Z, E, label + ' (after displacements)')
        Z.distances_from_base_position()
        self.settle(Z, E, label + ' (after distances)')
        self.check_positions(Z, E, label + ' (after displacement queries)', ref=first)


SLICES = {'[1:]': slice(1, None), '[::2]': slice(None, None, 2), '[1:3]': slice(1, 3), '[::-1]': slice(None, None, -1)}
QUERIES = ['positions', 'displacements', 'cumulative_displacements', 'distances', 'tracer']
DERIVE = ['filter', '[1:]', '[::2]', '[1:3]', '[::-1]', '[0:2][0:1]', 'split2', 'extend']
OPS = QUERIES + DERIVE


def apply_op(w, S_, E, op, tag):
    """Apply one API call to the source S_ (expected wrapped positions E); verify source and derived objects."""
    T = E.shape[0]
    if op == 'positions':
        w.ref = w.check_positions(S_, E, f'{tag} positions query', ref=w.ref)
    elif op == 'displacements':
        S_.displacements
    elif op == 'cumulative_displacements':
        S_.cumulative_displacements
    elif op == 'distances':
        S_.distances_from_base_position()
    elif op == 'tracer':
        S_.metrics().tracer_diffusivity(dimensions=3)
    elif op == 'filter':
        Z = S_.filter('Li')
        w.settle(S_, E, f'{tag} source after filter')
        EZ = E[:, [0], :]
        w.check_meta(Z, ['Li'], f'{tag} filter')
        w.roundtrip(Z, EZ, f'{tag} filter result')
    elif op in SLICES:
        Z = S_[SLICES[op]]
        w.settle(S_, E, f'{tag} source after {op}')
        EZ = E[SLICES[op]]
        w.check_meta(Z, SPECIES, f'{tag} {op}')
        prove(f'{tag} {op}: result is a gemdat Trajectory', type(Z) is type(S_))
        w.roundtrip(Z, EZ, f'{tag} {op} result')
    elif op == '[0:2][0:1]':
        Z = S_[0:2][0:1]
        w.settle(S_, E, f'{tag} source after {op}')
        w.check_meta(Z, SPECIES, f'{tag} {op}')
        w.roundtrip(Z, E[0:2][0:1], f'{tag} {op} result')
    elif op == 'split2':
        parts = S_.split(2)
        w.settle(S_, E, f'{tag} source after split')
        bounds = [int(v) for v in np.linspace(0, T - 1, 3, dtype=int)]
        prove(f'{tag} split: 2 parts', len(parts) == 2)
        for i, Z in enumerate(parts):
            w.check_meta(Z, SPECIES, f'{tag} split part {i}')
            w.roundtrip(Z, E[bounds[i]:bounds[i + 1]], f'{tag} split part {i}')
    elif op == 'extend':
        Z = S_[0:T]
        w.settle(S_, E, f'{tag} source after [0:T]')
        d0 = Z.distances_from_base_position()   # a read-only query on the object that is extended next
        prove(f'{tag} extend: distances before extending cover the frames held', tuple(d0.shape) == (E.shape[1], T))
        w.settle(Z, E, f'{tag} copy after distances')
        Z.extend(S_)
        w.settle(S_, E, f'{tag} source after being appended')
        w.check_meta(Z, SPECIES, f'{tag} extend')
        w.roundtrip(Z, np.concatenate([E, E], axis=0).view(type(E)), f'{tag} extend result')
        d1 = Z.distances_from_base_position()
        prove(f'{tag} extend: a distance query after extending covers all frames (no stale result of the earlier query)',
              tuple(d1.shape) == (E.shape[1], 2 * T))
        w.settle(Z, np.concatenate([E, E], axis=0).view(type(E)), f'{tag} extend result after distances')
    else:
        raise ValueError(op)
    w.settle(S_, E, f'{tag} source after {op}')


def _source(w, mode, T, A):
    """Symbolic source trajectory + its expected wrapped positions E (closed form: one floor per entry)."""
    if mode == 'positions':
        x = S([[[sym_real(f'x_{t}_{a}_{c}', -1, 2) for c in range(3)] for a in range(A)] for t in range(T)])
        for t in range(1, T):
            for idx in np.ndindex((A, 3)):
                d = x[(t,) + idx] - x[(t - 1,) + idx]
                assume(d - sfloor(d) != F(1, 2))
        src = w.make(x.copy())
        E = x.copy()
        for idx in np.ndindex(E.shape):
            E[idx] = x[idx] - sfloor(x[idx])
        return src, E
    lo, hi = F(-1, 2), F(1, 2)
    d = S([[[0 if t == 0 else sym_real(f'd_{t}_{a}_{c}', lo, hi, lo_strict=True, hi_strict=True) for c in range(3)]
            for a in range(A)] for t in range(T)])
    b = S([[sym_real(f'b_{a}_{c}', 0, 1, hi_strict=True) for c in range(3)] for a in range(A)])
    src = w.make(d.copy(), coords_are_displacement=True, base_positions=b.copy())
    E = d.copy()
    for t in range(T):
        for idx in np.ndindex((A, 3)):
            y = b[idx] + core.ssum([d[(s,) + idx] for s in range(1, t + 1)])
            E[(t,) + idx] = y - sfloor(y)
    return src, E


def _concrete_source(gt, mode, T, A, inputs, M, meta):
    from pymatgen.core import Species
    sp = [Species(s) for s in SPECIES]
    if mode == 'positions':
        x = np.array([[[float(inputs[f'x_{t}_{a}_{c}']) for c in range(3)] for a in range(A)] for t in range(T)])
        return gt.Trajectory(species=sp, coords=x.copy(), lattice=M, time_step=2e-15, metadata=meta), np.mod(x, 1)
    d = np.array([[[0.0 if t == 0 else float(inputs[f'd_{t}_{a}_{c}']) for c in range(3)] for a in range(A)] for t in range(T)])
    b = np.array([[float(inputs[f'b_{a}_{c}']) for c in range(3)] for a in range(A)])
    tr = gt.Trajectory(species=sp, coords=d.copy(), lattice=M, time_step=2e-15, metadata=meta,
                       coords_are_displacement=True, base_positions=b.copy())
    return tr, np.mod(b[None] + np.cumsum(d, axis=0), 1)


def seq_job(params):
    from symgem.runner import merge_results
    mode, T, A, seqs = params['mode'], params['T'], params['A'], params['seqs']
    raw = params.get('raw')
    M = pool.lattice_matrices()[LAT]
    results = []
    for seq in seqs:
        def body(seq=seq):
            import gemdat.metrics as gmx
            import gemdat.trajectory as gt
            import pymatgen.core.trajectory as pt
            with Patches() as p:
                p.np(gt, pt, gmx)
                p.set(gmx, 'FloatWithUnit', lambda x, unit: x)
                w = World(gt, M)
                src, E = _source(w, mode, T, A)
                tag = '>'.join(seq)
                try:
                    if raw == 'query':      # unwrapped input, first call is a .positions query
                        w.ref = w.check_positions(src, E, f'{tag} initial positions query')
                    elif raw is None:       # (raw == 'noquery': the first call of the sequence meets the unwrapped input)
                        w.settle(src, E, f'{tag} initial')
                    for i, op in enumerate(seq):
                        apply_op(w, src, E, op, f'[{tag}]#{i}')
                    w.check_positions(src, E, f'[{tag}] source at the end', ref=w.ref)
                    w.check_meta(src, SPECIES, f'[{tag}] source at the end')
                except Exception as e:
                    event(f'exception:{type(e).__name__} in {tag}', detail=str(e)[:200])
                    return
                sample(dict(mode=mode, sequence=seq))
        sub = dict(params, seqs=[seq])
        r = symbolic_job(sub, body, seq_job_replay, timeout_ms=60000, validate=1)
        for cx in r.get('cex', []):
            cx['inputs']['__sequence'] = '>'.join(seq)
        results.append(r)
    return merge_results(results)


def _circ(a, b):
    d = np.abs(np.asarray(a, dtype=float) - np.asarray(b, dtype=float))
    return float(np.minimum(d, 1 - d).max()) if d.size else 0.0


def seq_job_replay(params, inputs):
    """Concrete replay of all sequences of the job on the solver's input, against numpy slicing of the wrapped input."""
    import gemdat.trajectory as gt
    mode, T, A, seqs = params['mode'], params['T'], params['A'], params['seqs']
    if '__sequence' in inputs:
        seqs = [inputs['__sequence'].split('>')]
    M = pool.lattice_matrices()[LAT]
    meta = {'temperature': 300, 'tag': 'src'}
    eps = 1e-9

    def unstable(P0, P1):
        """exact stability of two answers; entries within 1e-6 of a cell face are compared modulo 1 only (float wrap artefacts)"""
        P0, P1 = np.asarray(P0, dtype=float), np.asarray(P1, dtype=float)
        far = np.abs(P0 - np.round(P0)) > 1e-6
        return P0.shape != P1.shape or bool((np.abs(P0 - P1)[far] > eps).any()) or _circ(P0, P1) > eps

    def derived_ok(Z, EZ, what):
        P0 = np.array(Z.positions, dtype=float)
        if P0.shape != EZ.shape or _circ(P0, EZ) > eps:
            return f'{what}: positions differ from the source frames/atoms'
        Z.displacements
        Z.distances_from_base_position()
        if _circ(Z.positions, EZ) > eps or unstable(P0, Z.positions):
            return f'{what}: positions change after displacement queries'
        if Z.metadata != meta or Z.time_step != 2e-15:
            return f'{what}: metadata/time step'
        return None
    for seq in seqs:
        if mode == 'positions':
            x = np.array([[[float(inputs[f'x_{t}_{a}_{c}']) for c in range(3)] for a in range(A)] for t in range(T)])
            if T > 1:
                fr = (x[1:] - x[:-1]) - np.floor(x[1:] - x[:-1])
                if np.abs(fr - 0.5).min() < 1e-7:
                    return True, 'tie: outside the claim'
        src, E = _concrete_source(gt, mode, T, A, inputs, M, meta)
        ref = np.array(src.positions, dtype=float) if params.get('raw') == 'query' else None
        for op in seq:
            msg = None
            try:
                if op == 'positions':
                    if ref is None:
                        ref = np.array(src.positions, dtype=float)
                    elif unstable(ref, src.positions):
                        msg = 'positions query returns something else than the earlier positions query'
                elif op == 'displacements':
                    src.displacements
                elif op == 'cumulative_displacements':
                    src.cumulative_displacements
                elif op == 'distances':
                    src.distances_from_base_position()
                elif op == 'tracer':
                    src.metrics().tracer_diffusivity(dimensions=3)
                elif op == 'filter':
                    msg = derived_ok(src.filter('Li'), E[:, [0], :], 'filter')
                elif op in SLICES:
                    msg = derived_ok(src[SLICES[op]], E[SLICES[op]], op)
                elif op == '[0:2][0:1]':
                    msg = derived_ok(src[0:2][0:1], E[0:2][0:1], op)
                elif op == 'split2':
                    bnd = np.linspace(0, T - 1, 3, dtype=int)
                    for i, Z in enumerate(src.split(2)):
                        msg = msg or derived_ok(Z, E[bnd[i]:bnd[i + 1]], f'split part {i}')
                elif op == 'extend':
                    Z = src[0:T]
                    Z.distances_from_base_position()
                    Z.extend(src)
                    msg = derived_ok(Z, np.concatenate([E, E]), 'extend')
                    if msg is None and Z.distances_from_base_position().shape != (A, 2 * T):
                        msg = f'extend: distances after extending have shape {Z.distances_from_base_position().shape}, expected {(A, 2 * T)} (stale query result)'
            except Exception as e:
                msg = f'{op} raised {type(e).__name__}: {e}'
            if msg:
                return False, f'sequence {seq}: {msg}; inputs={ {k: float(v) for k, v in inputs.items() if not k.startswith('__')} }'
            if _circ(src.positions, E) > eps:
                return False, f'sequence {seq}: source positions changed after {op}'
        if ref is not None and unstable(ref, src.positions):
            return False, f'sequence {seq}: .positions of the source differs from its answer before the read-only queries; inputs={ {k: float(v) for k, v in inputs.items() if not k.startswith("__")} }'
    return True, 'ok'


# --------------------------------------------------------------------------- to_volume as a read-only query


def volume_job(params):
    M = np.eye(3)

    def body():
        import gemdat.trajectory as gt
        import gemdat.volume as gv
        import pymatgen.core.trajectory as pt
        with Patches() as p:
            p.np(gt, pt, gv)
            w = World(gt, M)
            x = S([[[sym_real(f'x_{t}_0_{c}', -1, 2) for c in range(3)]] for t in range(2)])
            for c in range(3):
                d = x[1, 0, c] - x[0, 0, c]
                assume(d - sfloor(d) != F(1, 2))
            from pymatgen.core import Species
            src = gt.Trajectory(species=[Species('Li')], coords=x.copy(), lattice=M, time_step=2e-15, metadata=w.meta)
            E = x.copy()
            for idx in np.ndindex(E.shape):
                E[idx] = x[idx] - sfloor(x[idx])
            src.displacements
            w.settle(src, E, 'initial (displacement mode)')
            try:
                vol = src.to_volume(resolution=0.5)
            except Exception as e:
                event(f'exception:{type(e).__name__}', detail=str(e)[:200])
                return
            prove('volume counts both samples', core.ssum(np.asarray(vol.data).ravel().tolist()) == 2)
            w.settle(src, E, 'source after to_volume')
            w.check_positions(src, E, 'source after to_volume')
            sample(dict(shape=list(vol.data.shape)))

    return symbolic_job(params, body, None, timeout_ms=60000)


REPLAYS = dict(seq_job=seq_job_replay)


def jobs(tier, seed):
    js = []
    T, A = 4, 2
    if tier == 'quick':
        seqs = [[a] for a in OPS] + [[a, b] for a in OPS for b in OPS]
    else:
        first = ['displacements', 'distances', 'filter', '[1:]', '[::2]', 'split2', 'extend']
        seqs = [[a] for a in OPS] + [[a, b] for a in OPS for b in OPS] + \
               [[a, b, c] for a in first for b in OPS for c in ['positions', 'displacements', 'filter', '[1:3]', '[::-1]', 'split2', 'extend']]
    chunk = 6 if tier == 'quick' else 8
    for mode in ('positions', 'displacement'):
        for i in range(0, len(seqs), chunk):
            js.append(dict(name=f'seq_{mode}_{i // chunk:03d}', fn='seq_job', params=dict(mode=mode, T=T, A=A, seqs=seqs[i:i + chunk])))
    # unwrapped input met by the first call itself ('noquery') or by an initial .positions query whose answer must persist ('query')
    rseqs = [[a] for a in OPS] if tier == 'quick' else [[a] for a in OPS] + [[a, b] for a in ['displacements', 'filter', '[1:]', 'extend'] for b in OPS]
    for raw in ('query', 'noquery'):
        for i in range(0, len(rseqs), chunk):
            js.append(dict(name=f'seq_positions_raw_{raw}_{i // chunk:03d}', fn='seq_job',
                           params=dict(mode='positions', T=T, A=A, seqs=rseqs[i:i + chunk], raw=raw)))
    js.append(dict(name='to_volume_readonly', fn='volume_job', params={}))
    return js
