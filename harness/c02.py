"""C02 - site assignment follows the true minimum-image distance for every cell and radius.

exec (unmodified): gemdat.transitions._calculate_atom_states (outer and inner call), integer_remap (via the per-label form),
_compute_site_radius, Trajectory.get_lattice/positions.
"""
from __future__ import annotations

from fractions import Fraction as F

import numpy as np

from symgem import core, pool
from symgem.core import assume, conj, disj, event, implies, ite, prove, sample, sym_real
from symgem.runner import symbolic_job
from symgem.stubs import KDTreeContract, LatticeProxy
from symgem.symnp import Patches, S

PROPERTY = 'C02'
NOSITE = -1
EPS = F(1, 1000)   # tolerance band in Angstrom (float32 box of the KD-tree)

BOUNDS = {
    'quick': 'one atom, one frame, position any point of lines through the cell (one hugging faces/corner, one through a site of a label group whose first member is never visited); 3 concrete sites (one next to a cell corner) with labels A,A,B; radius 0.45 x '
             'smallest site separation (per-label form: 0.45 / 0.3 x), inner fraction in {1, 0.5, 0.75}; float and per-label radius forms; lattices cubic5, hex558, mono567b110, cubic5_rotz; '
             'automatic radius for any vibration amplitude in (0,3] on 4 site sets',
    'thorough': '8 pool lattices x 4 lines x both radius forms; two frames on cubic5',
}
OUTSIDE = ['more than one diffusing atom per query (the KD-tree query is per point)', 'positions off the scanned lines (all three axes symbolic does not finish: > 20 min per job even for the cubic cell)', 'lattices outside the pool; strongly triclinic / rhombohedral cells (z3 nlsat does not finish the state queries within 10 min; only their automatic-radius jobs run)',
           'float32 rounding of coordinates inside MDAnalysis (below the 1e-3 A band)', 'radii so large that site spheres overlap (assignment then only required to be one of the candidates)']
ASSUMPTIONS = [
    'PeriodicKDTree contract: periodic cell = triclinic_vectors(float32 box), points and centres wrapped into it, result = pairs with minimum-image '
    'distance <= radius in that cell',
    'true distance = minimum over 27 images of the metric-tensor form after componentwise reduction (27-image lemma per pool lattice)',
    'tolerance band 1e-3 A: assigned => d <= r + eps ;  d <= r - eps => assigned',
    'positions lie in [0,1) where the wrap is the identity (C01)',
]
STUBS = ['MDAnalysis PeriodicKDTree -> symgem.stubs.KDTreeContract', 'pymatgen Lattice (in gemdat.trajectory) -> LatticeProxy (get_cartesian_coords on symbols)']

SITES = [[0.1, 0.1, 0.1], [0.5, 0.6, 0.4], [0.97, 0.96, 0.03]]
LABELS = ['A', 'A', 'B']


def _sites(M, labels=LABELS, coords=SITES):
    from pymatgen.core import Lattice, Structure
    return Structure(Lattice(M), ['Li'] * len(coords), coords, labels=labels)


def _patch(p, lat):
    import gemdat.trajectory as gt
    import gemdat.transitions as gtr
    import gemdat.utils as gu
    import pymatgen.core.trajectory as pt
    from pymatgen.core import Lattice
    p.np(gt, pt, gtr, gu)
    p.set(core, 'FLOOR_FORK', True)
    gt.np._extra['mod'] = lambda a, m, *x, **y: a   # cut: positions in [0,1)
    p.set(gt, 'Lattice', lambda m: LatticeProxy(Lattice(np.asarray(m, dtype=float))))
    p.set(gtr, 'PeriodicKDTree', KDTreeContract)
    return gt, gtr


def states_job(params):
    lat, form, frames = params['lattice'], params['form'], params.get('frames', 1)
    M = pool.lattice_matrices()[lat]

    def body():
        from pymatgen.core import Lattice, Species
        with Patches() as p:
            gt, gtr = _patch(p, lat)
            LP = LatticeProxy(Lattice(M))
            line = params.get('line')   # [axis, [fixed fractional values of the other two axes]] or None (all three axes symbolic)
            xs = []
            for t in range(frames):
                if line is None:
                    xs.append([sym_real(f'x_{t}_{c}', 0, 1, hi_strict=True) for c in range(3)])
                else:
                    fixed = list(line[1])
                    xs.append([sym_real(f'x_{t}_{c}', 0, 1, hi_strict=True) if c == line[0] else core.rat(fixed.pop(0)) for c in range(3)])
            r, rb_c, f = float(params['radius']), float(params['radius_B']), float(params['inner_fraction'])
            tr = gt.Trajectory(species=[Species('Li')], coords=S([[x] for x in xs]), lattice=M, time_step=1e-15, metadata={})
            sites = _sites(M)
            if form == 'float':
                rad = {'': r}
                radii = [r, r, r]
            else:
                rb = rb_c
                rad = {'A': r, 'B': rb}
                radii = [r, r, rb]
            try:
                outer = gtr._calculate_atom_states(sites=sites, trajectory=tr, site_radius=rad)
                inner = gtr._calculate_atom_states(sites=sites, trajectory=tr, site_radius=rad, site_inner_fraction=f)
            except Exception as e:
                event(f'exception:{type(e).__name__}', detail=str(e)[:200])
                return
            prove('states shape (frames, atoms)', tuple(outer.shape) == (frames, 1) and tuple(inner.shape) == (frames, 1))
            for t in range(frames):
                o, i = int(outer[t, 0]), int(inner[t, 0])
                prove('state is NOSITE or a site index', o in (NOSITE, 0, 1, 2) and i in (NOSITE, 0, 1, 2))
                prove("an atom's inner site is either 'none' or its outer site", i in (NOSITE, o))
                qs = [LP.dist2_generic(xs[t], [core.rat(v) for v in s]) for s in SITES]
                for k in range(3):
                    rk = radii[k]
                    if o == k:
                        prove('assigned site lies within the site radius (true minimum-image distance)', qs[k] <= (rk + EPS) ** 2)
                    else:
                        prove('an atom within the radius of a site is assigned to it', ~(qs[k] <= (rk - EPS) ** 2))
                    if i == k:
                        prove('inner site lies within radius x inner fraction', qs[k] <= (rk * f + EPS) ** 2)
                    else:
                        prove('an atom within radius x inner fraction of a site is in its inner site',
                              ~conj([qs[k] <= (rk * f - EPS) ** 2, rk * f >= EPS]))
            sample(dict(lattice=lat, form=form, outer=[int(v) for v in outer.ravel()], inner=[int(v) for v in inner.ravel()]))

    return symbolic_job(params, body, states_job_replay, timeout_ms=300000)


def states_job_replay(params, inputs):
    import gemdat.trajectory as gt
    import gemdat.transitions as gtr
    from pymatgen.core import Species
    lat, form, frames = params['lattice'], params['form'], params.get('frames', 1)
    M = pool.lattice_matrices()[lat]
    line = params.get('line')
    xs = []
    for t in range(frames):
        if line is None:
            xs.append([float(inputs[f'x_{t}_{c}']) for c in range(3)])
        else:
            fixed = list(line[1])
            xs.append([float(inputs[f'x_{t}_{c}']) if c == line[0] else float(fixed.pop(0)) for c in range(3)])
    r, f, rb = float(params['radius']), float(params['inner_fraction']), float(params['radius_B'])
    rad = {'': r} if form == 'float' else {'A': r, 'B': rb}
    radii = [r, r, r] if form == 'float' else [r, r, rb]
    tr = gt.Trajectory(species=[Species('Li')], coords=np.array([[x] for x in xs]), lattice=M, time_step=1e-15, metadata={})
    sites = _sites(M)
    import warnings
    with warnings.catch_warnings():
        warnings.simplefilter('ignore')
        outer = gtr._calculate_atom_states(sites=sites, trajectory=tr, site_radius=rad)
        inner = gtr._calculate_atom_states(sites=sites, trajectory=tr, site_radius=rad, site_inner_fraction=f)
    eps = float(EPS)
    for t in range(frames):
        d = [pool.min_image_dist(M, xs[t], s) for s in SITES]
        o, i = int(outer[t, 0]), int(inner[t, 0])
        desc = f'lattice={lat} x={xs[t]} r={radii} f={f} distances={[round(v, 4) for v in d]} outer={o} inner={i}'
        if i not in (NOSITE, o):
            return False, f'inner site is neither none nor the outer site; {desc}'
        for k in range(3):
            if o == k and d[k] > radii[k] + eps:
                return False, f'assigned to site {k} at distance {d[k]} > radius; {desc}'
            if o != k and d[k] <= radii[k] - eps:
                return False, f'atom within the radius of site {k} (true minimum-image distance {d[k]:.4f}) but state is {o}; {desc}'
            if i == k and d[k] > radii[k] * f + eps:
                return False, f'inner site {k} at distance {d[k]} > r*f; {desc}'
            if i != k and d[k] <= radii[k] * f - eps and radii[k] * f >= eps:
                return False, f'atom within r*f of site {k} but inner state is {i}; {desc}'
    return True, 'ok'


# --------------------------------------------------------------------------- automatic radius


class _FakeTraj:
    def __init__(self, M):
        self._M = M

    def get_lattice(self):
        from pymatgen.core import Lattice
        return Lattice(self._M)


AUTO_SETS = {
    'three': SITES,
    'hexpair': [[0.1, 0.1, 0.1], [0.55, 0.65, 0.1]],
    'close': [[0.1, 0.1, 0.1], [0.16, 0.1, 0.1], [0.6, 0.6, 0.6]],
    'face': [[0.02, 0.5, 0.5], [0.9, 0.5, 0.5], [0.5, 0.0, 0.98]],
}


def auto_job(params):
    lat, sset = params['lattice'], params['sites']
    M = pool.lattice_matrices()[lat]
    coords = AUTO_SETS[sset]
    sep = min(pool.min_image_dist(M, coords[i], coords[j]) for i in range(len(coords)) for j in range(i + 1, len(coords)))

    def body():
        import gemdat.transitions as gtr
        with Patches() as p:
            p.np(gtr)
            v = sym_real('vibration_amplitude', 0, 3, lo_strict=True)
            sites = _sites(M, labels=['A'] * len(coords), coords=coords)
            try:
                r = gtr._compute_site_radius(trajectory=_FakeTraj(M), sites=sites, vibration_amplitude=v)
            except ValueError as e:
                prove('ValueError only when sites are closer than 0.5 A + margin and the amplitude is large enough to need shrinking',
                      'too close' in str(e).lower() and sep < 0.52)
                return
            except Exception as e:
                event(f'exception:{type(e).__name__}', detail=str(e)[:200])
                return
            prove('automatic radius: site spheres never overlap (2 r < smallest true site separation)', 2 * r < core.rat(sep) + F(1, 10 ** 9))
            prove('automatic radius is positive and at most twice the vibration amplitude', conj([r > 0, r <= 2 * v]))
            sample(dict(lattice=lat, sites=sset, separation=round(sep, 4)))

    return symbolic_job(params, body, auto_job_replay)


def auto_job_replay(params, inputs):
    import gemdat.transitions as gtr
    lat, sset = params['lattice'], params['sites']
    M = pool.lattice_matrices()[lat]
    coords = AUTO_SETS[sset]
    sep = min(pool.min_image_dist(M, coords[i], coords[j]) for i in range(len(coords)) for j in range(i + 1, len(coords)))
    v = float(inputs['vibration_amplitude'])
    sites = _sites(M, labels=['A'] * len(coords), coords=coords)
    try:
        r = gtr._compute_site_radius(trajectory=_FakeTraj(M), sites=sites, vibration_amplitude=v)
    except ValueError:
        return sep < 0.52, f'ValueError with separation {sep}'
    return (2 * r < sep + 1e-9 and r > 0), f'automatic radius {r} with smallest true site separation {sep} (lattice={lat}, sites={sset}, amplitude={v})'


REPLAYS = dict(states_job=states_job_replay, auto_job=auto_job_replay)


LINES = [[0, [0.98, 0.02]], [1, [0.95, 0.05]], [2, [0.99, 0.97]], [0, [0.1, 0.1]], [1, [0.5, 0.4]], [2, [0.03, 0.94]]]


def jobs(tier, seed):
    js = []
    L = LINES
    if tier == 'quick':
        sj = [('cubic5', 'float', 1, L[0], (1.0, 0.5)), ('cubic5', 'float', 1, L[4], (1.0,)), ('cubic5', 'label', 1, L[4], (0.75,)),
              ('cubic5', 'label', 1, L[0], (0.75,)), ('hex558', 'float', 1, L[0], (1.0,)), ('hex558', 'label', 1, L[4], (0.75,)),
              ('mono567b110', 'float', 1, L[0], (1.0,)), ('cubic5_rotz', 'label', 1, L[0], (0.75,))]
        aj = [('cubic5', 'three'), ('hex558', 'hexpair'), ('tric', 'close'), ('mono567b110', 'face')]
    else:
        sj = [(lat, form, 1, ln, fs) for lat in ('cubic5', 'ortho457', 'unit', 'hex558', 'mono567b110', 'cubic5_rotz', 'ortho457_rot180', 'mono345')
              for form, fs in (('float', (1.0, 0.5)), ('label', (0.75,))) for ln in (L[0], L[1], L[2], L[4])] + \
             [('cubic5', 'float', 2, L[0], (1.0,)), ('cubic5', 'label', 2, L[4], (0.75,))]
        aj = [(lat, ss) for lat in ('cubic5', 'hex558', 'tric', 'mono567b110', 'rhomb60', 'cubic5_rotz') for ss in AUTO_SETS]
    for lat, form, fr, ln, fs in sj:
        M = pool.lattice_matrices()[lat]
        sep = min(pool.min_image_dist(M, SITES[i], SITES[j]) for i in range(3) for j in range(i + 1, 3))
        for f in fs:
            r = round(0.45 * sep, 3)   # spheres of radius r + eps cannot overlap: the assignment is unique
            tag = 'xyz' if ln is None else f'axis{ln[0]}_{ln[1][0]}_{ln[1][1]}'
            js.append(dict(name=f'states_{lat}_{form}_F{fr}_f{f}_{tag}', fn='states_job',
                           params=dict(lattice=lat, form=form, frames=fr, radius=r, radius_B=round(0.3 * sep, 3), inner_fraction=f, line=ln)))
    for lat, ss in aj:
        js.append(dict(name=f'autoradius_{lat}_{ss}', fn='auto_job', params=dict(lattice=lat, sites=ss)))
    return js
