"""C12 - collective jumps are exactly the close-in-time/space pairs of different atoms.

exec (unmodified): gemdat.collective.Collective.__init__/_compute (real pandas iterrows /
slicing; DataFrame.sort_values intercepted by a fork-on-'<' stable sort so times stay
symbolic), n_solo_jumps / n_coll_jumps; window arithmetic of Jumps.collective.
"""
from __future__ import annotations

import itertools
import math

import numpy as np
import pandas as pd

from symgem import core, pool, sympd
from symgem.core import assume, conj, disj, event, ite, prove, sample, ssum, sym_int
from symgem.runner import symbolic_job
from symgem.symnp import Patches, S, SitesProxy
from symgem.stubs import LatticeProxy, SitesSym

PROPERTY = 'C12'

BOUNDS = {
    'quick': 'jump tables with k<=3 rows: atom ids in [0,1], start<stop times any integers in [0,1000], window W any integer '
             'in [0,1000], origin != destination sites symbolic over 4 pool sites; geometries: k=2 on cubic5/four, rhomb60/shear4, '
             'hex558/four; k=3 on rhomb60/shear4',
    'thorough': 'k<=3 rows with atom ids in [0,2] on all 4 pool geometries (cubic, rhombohedral 60 deg, triclinic, hexagonal), k=4 (2 atoms) on the rhombohedral one; window arithmetic',
}
OUTSIDE = ['more than 3 jumps per table (k=4 needs ~10^6 paths of pandas code)', 'the attempt frequency itself (scipy periodogram), only ceil(1/(nu*dt)) is covered']
ASSUMPTIONS = [
    'jump rows satisfy start time < stop time and origin != destination (what _generic_transitions_to_jumps emits; C04)',
    'site geometry concrete (pool): "within cut-off" for a site pair is decided by an independent brute-force minimum-image '
    'computation, and no pool distance lies within 1e-6 of the cut-off',
    'an extra column "id" is added to the jump table to identify rows in the output (ignored by GEMDAT)',
]
STUBS = ['sites.frac_coords handed in as exact rationals so that rows selected by symbolic site ids are If-merged',
         'Lattice.get_all_distances on such rows: looked up (If-merged) in the table the real pymatgen call returns for the '
         'concrete site list; any other symbolic coordinates go through the 27-image metric-tensor contract',
         'pandas.DataFrame.sort_values on symbolic columns -> symgem.sympd stable sort forking on "<" (differentially '
         'validated against pandas by selftest)']

# (lattice, site set, cut-off): 4 sites, so that two jumps can use disjoint site pairs; cut-offs chosen so
# that some site pairs are within the cut-off and some are not (and, in the sheared cells, pairs whose
# true minimum image differs from the component-wise wrapped difference)
GEOMS = {
    'cubic5/four': ('cubic5', 'four', 2.0),
    'rhomb60/shear4': ('rhomb60', 'shear4', 2.6),
    'tric/four': ('tric', 'four', 2.52),
    'hex558/four': ('hex558', 'four', 2.51),
}
pool.SITE_SETS.setdefault('shear4', ([[0.0, 0.0, 0.0], [0.55, 0.55, 0.0], [0.3, 0.1, 0.5], [0.8, 0.45, 0.5]], ['A', 'A', 'B', 'B']))


class _J:
    pass


def _close_matrix(geom):
    lat, sset, cut = GEOMS[geom]
    M = pool.lattice_matrices()[lat]
    coords, _ = pool.SITE_SETS[sset]
    n = len(coords)
    D = [[pool.min_image_dist(M, coords[i], coords[j]) for j in range(n)] for i in range(n)]
    for i in range(n):
        for j in range(n):
            assert abs(D[i][j] - cut) > 1e-6, 'pool distance too close to the cut-off'
    return [[D[i][j] < cut for j in range(n)] for i in range(n)], n


def _build(df, geom, W, mode='merged'):
    import gemdat.collective as gc
    from pymatgen.core import Lattice
    lat, sset, cut = GEOMS[geom]
    j = _J()
    j.data = df
    sites = pool.structure(lat, sset)
    lattice = Lattice(pool.lattice_matrices()[lat])
    if core.active() and mode == 'merged':
        lattice = LatticeProxy(lattice, points=sites.frac_coords)
        sites = SitesSym(sites)
    elif core.active():
        sites = SitesProxy(sites)  # site ids concretised by forking; real pymatgen distances
    return gc.Collective(jumps=j, sites=sites, lattice=lattice, max_steps=W, max_dist=cut)


COLS = ['atom index', 'start site', 'destination site', 'start time', 'stop time', 'id']


def collective_job(params):
    import gemdat.collective as gc
    k, geom, A = params['k'], params['geom'], params['A']
    close, n = _close_matrix(geom)
    TMAX = 1000

    def body(mode='merged'):
        rows = []
        for r in range(k):
            a = sym_int(f'atom_{r}', 0, A - 1)
            o = sym_int(f'orig_{r}', 0, n - 1)
            d = sym_int(f'dest_{r}', 0, n - 1)
            t1 = sym_int(f'start_{r}', 0, TMAX)
            t2 = sym_int(f'stop_{r}', 0, TMAX)
            assume(o != d)
            assume(t1 < t2)
            rows.append([a, o, d, t1, t2, r])
        W = sym_int('W', 0, TMAX)
        df = pd.DataFrame(data=S(rows), columns=COLS)
        try:
            c = _build(df, geom, W, mode)
        except Exception as e:
            event(f'exception:{type(e).__name__}', detail=str(e)[:200])
            return
        reported = []
        for ei, ej in c.collective:
            reported.append(frozenset((int(ei['id']), int(ej['id']))))
        prove('each unordered pair reported once', len(set(reported)) == len(reported) and all(len(p) == 2 for p in reported))
        rep = set(reported)

        def near(p, q):
            return disj([conj([x == i, y == j]) for x in (rows[p][1], rows[p][2]) for y in (rows[q][1], rows[q][2])
                         for i in range(n) for j in range(n) if close[i][j]])
        for p, q in itertools.combinations(range(k), 2):
            C = conj([rows[p][0] != rows[q][0],
                      rows[q][3] - rows[p][4] <= W, rows[p][3] - rows[q][4] <= W,
                      near(p, q)])
            if frozenset((p, q)) in rep:
                prove('reported pair is close in time and space and of different atoms', C)
            else:
                prove('every close-in-time/space pair of different atoms is reported', ~C if core.is_sym(C) else not C)
        in_pair = set().union(*rep) if rep else set()
        prove('n_solo + n_coll = number of jumps', c.n_solo_jumps + c.n_coll_jumps == k)
        prove('n_coll = jumps that take part in some pair', c.n_coll_jumps == len(in_pair))
        prove('coll_jumps lists the site pairs of the reported pairs', len(c.coll_jumps) == len(reported))
        sample(dict(k=k, geom=geom, pairs=len(rep)))

    sp = params.get('split')
    with Patches() as p:
        p.set(pd.DataFrame, 'sort_values', sympd.sym_sort_values)
        p.np(gc)
        r = symbolic_job(params, body, collective_job_replay, max_paths=2000000, split=tuple(sp) if sp else None,
                         timeout_ms=15000)
    if r['status'] == 'inconclusive' and 'unknown' in r.get('message', ''):
        # the code under test did arithmetic on the If-merged site coordinates that z3 could not decide:
        # fall back to concretising the site ids (forks) and executing real numpy/pymatgen on concrete rows
        with Patches() as p:
            p.set(pd.DataFrame, 'sort_values', sympd.sym_sort_values)
            r2 = symbolic_job(params, lambda: body('concrete'), collective_job_replay, max_paths=2000000,
                              split=tuple(sp) if sp else None)
        r2.setdefault('notes', []).append('fallback: site ids concretised after solver unknown in merged mode')
        return r2
    return r


def collective_job_replay(params, inputs):
    k, geom, A = params['k'], params['geom'], params['A']
    close, n = _close_matrix(geom)
    rows = [[int(inputs[f'atom_{r}']), int(inputs[f'orig_{r}']), int(inputs[f'dest_{r}']),
             int(inputs[f'start_{r}']), int(inputs[f'stop_{r}']), r] for r in range(k)]
    W = int(inputs['W'])
    df = pd.DataFrame(data=np.array(rows, dtype=int).reshape(k, 6), columns=COLS)
    c = _build(df, geom, W)
    rep = [frozenset((int(ei['id']), int(ej['id']))) for ei, ej in c.collective]
    exp = set()
    for p, q in itertools.combinations(range(k), 2):
        a, b = rows[p], rows[q]
        if a[0] != b[0] and b[3] - a[4] <= W and a[3] - b[4] <= W and \
                any(close[x][y] for x in (a[1], a[2]) for y in (b[1], b[2])):
            exp.add(frozenset((p, q)))
    desc = f'jumps(atom,orig,dest,start,stop,id)={rows} W={W} geom={geom}'
    if len(set(rep)) != len(rep):
        return False, f'pair reported twice: {[sorted(x) for x in rep]}; {desc}'
    if set(rep) != exp:
        return False, f'reported pairs {sorted(sorted(x) for x in rep)} != expected {sorted(sorted(x) for x in exp)}; {desc}'
    inp = set().union(*exp) if exp else set()
    if c.n_solo_jumps + c.n_coll_jumps != k or c.n_coll_jumps != len(inp):
        return False, f'n_solo={c.n_solo_jumps} n_coll={c.n_coll_jumps} expected coll={len(inp)}; {desc}'
    return True, 'ok'


# --------------------------------------------------------------------------- window length


def window_job(params):
    """max_steps = ceil(1/(attempt_freq * time_step)) in Jumps.collective: the real method is run
    with the attempt frequency (environment: scipy periodogram) and Collective stubbed."""
    import gemdat.jumps as jm
    from symgem.core import sym_real

    def body():
        x = sym_real('nu_dt', 0, 10, lo_strict=True)  # product attempt_freq * time_step
        # ceil via math.ceil -> SNum.__ceil__
        got = jm.ceil(1.0 / x) if False else None
        j = jm.Jumps.__new__(jm.Jumps)
        tr_ = _J()
        tr_.time_step = 1
        tr_.get_lattice = lambda: None
        j.trajectory = tr_
        t = _J()
        t.sites = None
        j.transitions = t
        captured = {}

        class FakeMetrics:
            def __init__(self, trajectory):
                pass

            def attempt_frequency(self):
                return x, 0

        def fake_collective(**kw):
            captured.update(kw)
            return kw
        with Patches() as p:
            p.set(jm, 'TrajectoryMetrics', FakeMetrics)
            p.set(jm, 'Collective', fake_collective)
            p.set(jm, 'ceil', sceil)
            jm.Jumps.collective.__wrapped__(j)
            Wn = captured.get('max_steps')
            dflt = captured.get('max_dist', 1)   # Collective's own default when the keyword is not passed on
            captured.clear()
            jm.Jumps.collective.__wrapped__(j, 2.5)
            given = captured.get('max_dist', 1)
            captured.clear()
            jm.Jumps.collective.__wrapped__(j, max_dist=0.5)
            given_kw = captured.get('max_dist', 1)
        prove('window = smallest integer W with W * nu * dt >= 1', conj([Wn * x >= 1, (Wn - 1) * x < 1]))
        prove('default cut-off 1 A', dflt == 1)
        prove('the cut-off distance given to Jumps.collective is the one used', given == 2.5 and given_kw == 0.5)

    return symbolic_job(params, body, window_job_replay)


def window_job_replay(params, inputs):
    import math as _m
    import gemdat.jumps as jm
    x = float(inputs['nu_dt'])
    j = jm.Jumps.__new__(jm.Jumps)
    tr_ = _J()
    tr_.time_step = 1
    tr_.get_lattice = lambda: None
    j.trajectory = tr_
    t = _J()
    t.sites = None
    j.transitions = t
    captured = {}

    class FakeMetrics:
        def __init__(self, trajectory):
            pass

        def attempt_frequency(self):
            return x, 0

    def fake_collective(**kw):
        captured.update(kw)
        return kw
    with Patches() as p:
        p.set(jm, 'TrajectoryMetrics', FakeMetrics)
        p.set(jm, 'Collective', fake_collective)
        jm.Jumps.collective.__wrapped__(j)
        W = captured.get('max_steps')
        captured.clear()
        jm.Jumps.collective.__wrapped__(j, 2.5)
        given = captured.get('max_dist', 1)
        captured.clear()
        jm.Jumps.collective.__wrapped__(j, max_dist=0.5)
        given_kw = captured.get('max_dist', 1)
    if W != _m.ceil(1.0 / x):
        return False, f'window {W} != ceil(1/(nu dt)) = {_m.ceil(1.0 / x)}'
    if given != 2.5 or given_kw != 0.5:
        return False, f'Jumps.collective(2.5) / (max_dist=0.5) used the cut-offs {given} / {given_kw}'
    return True, 'ok'


def sceil(v):
    if core.is_sym(v):
        return -core.sfloor_int(-v)
    return math.ceil(v)


REPLAYS = dict(collective_job=collective_job_replay, window_job=window_job_replay)


def jobs(tier, seed):
    js = []
    if tier == 'quick':
        cfg = [(2, 'cubic5/four', 2), (2, 'rhomb60/shear4', 2), (2, 'hex558/four', 2),
               (3, 'rhomb60/shear4', 3), (3, 'cubic5/four', 3)]
    else:
        cfg = [(k, g, min(k, 3)) for k in (2, 3) for g in GEOMS] + [(4, 'rhomb60/shear4', 2)]
    for k, g, A in cfg:
        depth = 0 if k < 3 else (4 if k == 3 else 8)
        for i in range(2 ** depth):
            js.append(dict(name=f'collective_k{k}_{g.replace("/", "_")}_A{A}' + (f'_part{i}of{2 ** depth}' if depth else ''),
                           fn='collective_job', params=dict(k=k, geom=g, A=A, split=[i, depth] if depth else None)))
    js.append(dict(name='window', fn='window_job', params={}))
    return js
