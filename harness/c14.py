"""C14 - derived metrics obey their formulas and physical scaling laws.

exec (unmodified): gemdat.metrics.TrajectoryMetrics.particle_density / mol_per_liter /
tracer_diffusivity / tracer_diffusivity_center_of_mass / haven_ratio / tracer_conductivity /
speed / amplitudes, TrajectoryMetricsStd.tracer_diffusivity / tracer_conductivity,
gemdat.trajectory.Trajectory.center_of_mass / split.
"""
from __future__ import annotations

from fractions import Fraction as F

import numpy as np

from symgem import core, pool
from symgem.core import assume, conj, event, implies, prove, prove_isolated, sample, sym_int, sym_real
from symgem.runner import symbolic_job
from symgem.stubs import rat_array
from symgem.symnp import Patches, S

PROPERTY = 'C14'

BOUNDS = {
    'quick': 'displacement-form trajectories (T,A) in {(3,2),(4,2),(3,3)} (species Li, O, Li) on cubic5 / tric / hex558; ion charge any '
             'integer in [-4,4], temperature any real in (0,5000], dimensions 1..3; cell scale k in {2, 3/2} (k must keep the float lattice matrix exact: 3/2 only on lattices with short binary entries), time scale s in {2, 3/2}; '
             'amplitudes: A in {1,2}, T<=5 with distances cut to arbitrary non-negative reals; Std variants over 2 parts',
    'thorough': '(T,A) up to (5,3); all pool lattices for the density/scaling jobs; amplitudes T<=7',
}
OUTSIDE = ['attempt frequency and its scaling, vibration_amplitude (np.std of a data-dependent list) scaling: both need scipy.signal.periodogram '
           '/ data-dependent list lengths', 'floating-point rounding']
ASSUMPTIONS = [
    'input in displacement form (C01 covers wrapped positions -> steps)',
    'physical constants (angstrom, Avogadro, Boltzmann, elementary_charge), atomic masses and the time step are read as exact rationals',
    'metric tensor = M M^T exactly; floats read as reals',
    'amplitudes: the distance series of an atom is cut to arbitrary reals >= 0 starting at 0 (any such series is admitted)',
]
STUBS = ['FloatWithUnit -> identity', 'uncertainties.ufloat -> (mean, std) pair', 'np.sqrt -> distance by its square']

SPECIES = ['Li', 'O', 'Li']


def _consts(p, gmx):
    import scipy.constants as sc
    vals = {}
    for n in ('angstrom', 'Avogadro', 'Boltzmann', 'elementary_charge'):
        vals[n] = core.rat(getattr(sc, n))
        p.set(gmx, n, vals[n])
    p.set(gmx, 'FloatWithUnit', lambda x, unit: x)
    return vals


def _mk(gt, d, b, M, dt, A, temperature=300):
    from pymatgen.core import Species
    return gt.Trajectory(species=[Species(s) for s in SPECIES[:A]], coords=d, lattice=M, time_step=dt,
                         metadata={'temperature': temperature}, coords_are_displacement=True, base_positions=b)


def _sym_traj(T, A, identical=False):
    lo, hi = F(-1, 2), F(1, 2)
    if identical:
        d1 = [[0 if t == 0 else sym_real(f'd_{t}_0_{c}', lo, hi) for c in range(3)] for t in range(T)]
        d = S([[d1[t] for a in range(A)] for t in range(T)])
    else:
        d = S([[[0 if t == 0 else sym_real(f'd_{t}_{a}_{c}', lo, hi) for c in range(3)] for a in range(A)] for t in range(T)])
    b = S([[sym_real(f'b_{a}_{c}', 0, 1, hi_strict=True) for c in range(3)] for a in range(A)])
    return d, b


def _conc_traj(inputs, T, A, identical=False):
    d = np.array([[[0.0 if t == 0 else float(inputs[f'd_{t}_{0 if identical else a}_{c}']) for c in range(3)] for a in range(A)]
                  for t in range(T)])
    b = np.array([[float(inputs[f'b_{a}_{c}']) for c in range(3)] for a in range(A)])
    return d, b


def _final_sq(d, Mr, a, T):
    c = [core.ssum([d[s, a, i] for s in range(T)]) for i in range(3)]
    cart = [core.ssum([c[i] * Mr[i][j] for i in range(3)]) for j in range(3)]
    return core.ssum([v * v for v in cart])


def _patch_metric(p, M):
    from pymatgen.core import Lattice
    Mr = np.asarray(rat_array(M))
    Gr = np.dot(Mr, Mr.T).view(type(rat_array(M)))
    p.set(Lattice, 'metric_tensor', property(lambda self: Gr))
    return Mr


# --------------------------------------------------------------------------- formulas


def formulas_job(params):
    T, A, lat, identical = params['T'], params['A'], params['lattice'], params.get('identical', False)
    M = pool.lattice_matrices()[lat]
    dt = F(2, 10 ** 15)

    def body():
        import gemdat.metrics as gmx
        import gemdat.trajectory as gt
        import pymatgen.core.trajectory as pt
        from pymatgen.core import Species
        with Patches() as p:
            p.np(gt, pt, gmx)
            K = _consts(p, gmx)
            Mr = _patch_metric(p, M)
            d, b = _sym_traj(T, A, identical)
            temp = sym_real('temperature', 0, 5000, lo_strict=True)
            z = sym_int('z_ion', -4, 4)
            tr = _mk(gt, d.copy(), b.copy(), M, dt, A, temperature=temp)
            m = gmx.TrajectoryMetrics(tr)
            try:
                rho = m.particle_density()
                mol = m.mol_per_liter()
                D = {dim: m.tracer_diffusivity(dimensions=dim) for dim in (1, 2, 3)}
                sig = {dim: m.tracer_conductivity(z_ion=z, dimensions=dim) for dim in (1, 3)}
                com = tr.center_of_mass()
                Dcom = {dim: m.tracer_diffusivity_center_of_mass(dimensions=dim) for dim in (1, 2, 3)}
                havs = {dim: m.haven_ratio(dimensions=dim) for dim in (2, 3)}
            except Exception as e:
                event(f'exception:{type(e).__name__}', detail=str(e)[:200])
                return
            vol = abs(np.linalg.det(np.array(M, dtype=float)))
            rho_e = core.rat(A) / (core.rat(vol) * K['angstrom'] ** 3)
            tol = lambda x: abs(x) * core.rat(1e-9)  # noqa: E731  (volume is a float determinant)
            prove('particle density = N / V', conj([rho - rho_e <= tol(rho_e), rho_e - rho <= tol(rho_e)]))
            prove_isolated('molarity = density * 1e-3 / N_A', mol == rho * core.rat(1e-3) / K['Avogadro'])
            fin = [_final_sq(d, Mr, a, T) for a in range(A)]
            for dim, got in D.items():
                e = (core.ssum(fin) / A) * K['angstrom'] ** 2 / (2 * dim * T * dt)
                prove_isolated('tracer diffusivity formula', got == e, timeout_ms=120000)
            for dim, got in sig.items():
                qp = core.quotient_parts(got)
                prove('tracer conductivity is a quotient', qp is not None)
                if qp is not None:
                    prove_isolated('tracer conductivity numerator = e^2 z^2 D rho (Nernst-Einstein)',
                                   qp[0] == K['elementary_charge'] ** 2 * z * z * D[dim] * rho, timeout_ms=120000)
                    prove_isolated('tracer conductivity denominator = k_B T', qp[1] == K['Boltzmann'] * temp, timeout_ms=120000)
            # centre of mass: mass-weighted mean of the unwrapped positions
            w = [core.rat(float(Species(s).atomic_mass)) for s in SPECIES[:A]]
            W = core.ssum(w)
            cpos = com.coords if not com.coords_are_displacement else None
            prove('centre-of-mass trajectory has one site per frame', cpos is not None and tuple(cpos.shape) == (T, 1, 3))
            if cpos is None:
                return
            lemma = []
            steps = {}
            for t in range(T):
                for c in range(3):
                    e = core.ssum([w[a] * (b[a, c] + core.ssum([d[s, a, c] for s in range(t + 1)])) for a in range(A)]) / W
                    prove_isolated('centre of mass = mass-weighted mean of unwrapped positions', cpos[t, 0, c] == e)
                    steps[(t, c)] = core.ssum([w[a] * d[t, a, c] for a in range(A)]) / W if t > 0 else 0
            cd = com.displacements  # minimum-image steps of the centre of mass (|step| <= 1/2: no re-wrapping)
            for t in range(T):
                for c in range(3):
                    fact = cd[t, 0, c] == steps[(t, c)]
                    prove_isolated('lemma: centre-of-mass steps are the mass-weighted mean steps', fact, timeout_ms=60000)
                    lemma.append(fact)
            cfin = [core.ssum([steps[(t, i)] for t in range(T)]) for i in range(3)]
            ccart = [core.ssum([cfin[i] * Mr[i][j] for i in range(3)]) for j in range(3)]
            cq = core.ssum([v * v for v in ccart])
            for dim, got in Dcom.items():
                e = cq * K['angstrom'] ** 2 / (2 * dim * T * dt)
                prove_isolated('centre-of-mass diffusivity formula', got == e, given=lemma, timeout_ms=120000)
            # Haven ratio: the code's quotient must be tracer diffusivity over centre-of-mass diffusivity
            for dim, hav in havs.items():
                qp = core.quotient_parts(hav)
                prove('Haven ratio is computed as a quotient', qp is not None)
                if qp is not None:
                    prove_isolated('Haven ratio numerator = tracer diffusivity (same dimensions)', qp[0] == D[dim], timeout_ms=120000)
                    prove_isolated('Haven ratio denominator = centre-of-mass diffusivity (same dimensions)', qp[1] == Dcom[dim],
                                   timeout_ms=120000)
                    if identical:
                        prove_isolated('atoms that all move identically: numerator = denominator, i.e. a Haven ratio of one',
                                       qp[0] == qp[1], given=lemma, timeout_ms=120000)
            sample(dict(T=T, A=A, lattice=lat, identical=identical))

    return symbolic_job(params, body, formulas_job_replay)


def formulas_job_replay(params, inputs):
    import gemdat.metrics as gmx
    import gemdat.trajectory as gt
    import scipy.constants as sc
    from pymatgen.core import Species
    T, A, lat, identical = params['T'], params['A'], params['lattice'], params.get('identical', False)
    M = pool.lattice_matrices()[lat]
    dt = 2e-15
    d, b = _conc_traj(inputs, T, A, identical)
    temp, z = float(inputs['temperature']), int(inputs['z_ion'])
    tr = _mk(gt, d.copy(), b.copy(), M, dt, A, temperature=temp)
    m = gmx.TrajectoryMetrics(tr)
    r = np.cumsum(d, axis=0) @ M
    rel = lambda a, e: abs(a - e) <= 1e-9 * max(abs(e), 1e-300)  # noqa: E731
    vol = abs(np.linalg.det(M))
    rho = A / (vol * 1e-30)
    desc = f'lattice={lat} d={d.tolist()} T_K={temp} z={z}'
    if not rel(float(m.particle_density()), rho):
        return False, f'particle_density {float(m.particle_density())} != {rho}; {desc}'
    if not rel(float(m.mol_per_liter()), rho * 1e-3 / sc.Avogadro):
        return False, f'mol_per_liter; {desc}'
    for dim in (1, 2, 3):
        e = np.mean(np.sum(r[-1] ** 2, axis=-1)) * 1e-20 / (2 * dim * T * dt)
        if not rel(float(m.tracer_diffusivity(dimensions=dim)), e):
            return False, f'tracer_diffusivity({dim}) {float(m.tracer_diffusivity(dimensions=dim))} != {e}; {desc}'
        es = sc.elementary_charge ** 2 * z ** 2 * e * rho / (sc.Boltzmann * temp)
        if not rel(float(m.tracer_conductivity(z_ion=z, dimensions=dim)), es):
            return False, f'tracer_conductivity({dim}) != {es}; {desc}'
    w = np.array([float(Species(s).atomic_mass) for s in SPECIES[:A]])
    cr = (np.cumsum(d, axis=0) * w[None, :, None]).sum(axis=1) / w.sum()
    cq = float(np.sum((cr[-1] @ M) ** 2))
    for dim in (1, 2, 3):
        e3 = cq * 1e-20 / (2 * dim * T * dt)
        got = float(m.tracer_diffusivity_center_of_mass(dimensions=dim))
        if not rel(got, e3):
            return False, f'tracer_diffusivity_center_of_mass(dimensions={dim}) {got} != {e3}; {desc}'
        if e3 > 1e-300:
            D3 = np.mean(np.sum(r[-1] ** 2, axis=-1)) * 1e-20 / (2 * dim * T * dt)
            if not rel(float(m.haven_ratio(dimensions=dim)), D3 / e3):
                return False, f'haven_ratio(dimensions={dim}) {float(m.haven_ratio(dimensions=dim))} != {D3 / e3}; {desc}'
    return True, 'ok'


# --------------------------------------------------------------------------- scaling laws


def scaling_job(params):
    T, A, lat = params['T'], params['A'], params['lattice']
    k, sfac = F(params['k']), F(params['s'])
    M = pool.lattice_matrices()[lat]
    dt = F(2, 10 ** 15)

    def body():
        import gemdat.metrics as gmx
        import gemdat.trajectory as gt
        import pymatgen.core.trajectory as pt
        with Patches() as p:
            p.np(gt, pt, gmx)
            _consts(p, gmx)
            d, b = _sym_traj(T, A)
            res = {}
            for tag, (MM, tstep) in dict(base=(M, dt), cell=(np.array(M) * float(k), dt), time=(M, dt * sfac)).items():
                with Patches() as q:
                    _patch_metric(q, MM)
                    tr = _mk(gt, d.copy(), b.copy(), MM, tstep, A)
                    m = gmx.TrajectoryMetrics(tr)
                    res[tag] = dict(D=m.tracer_diffusivity(dimensions=3), Dc=m.tracer_diffusivity_center_of_mass(dimensions=3),
                                    rho=m.particle_density(), dist=tr.distances_from_base_position())
            prove('scaling the cell by k multiplies the diffusivity by k^2', res['cell']['D'] == k * k * res['base']['D'])
            prove_isolated('scaling the cell by k multiplies the centre-of-mass diffusivity by k^2',
                           res['cell']['Dc'] == k * k * res['base']['Dc'], timeout_ms=120000)
            r0, r1 = res['base']['rho'], res['cell']['rho']
            prove('scaling the cell by k divides the particle density by k^3',
                  conj([r1 * k ** 3 - r0 <= abs(r0) * core.rat(1e-9), r0 - r1 * k ** 3 <= abs(r0) * core.rat(1e-9)]))
            for idx in np.ndindex(res['base']['dist'].shape):
                prove('scaling the cell by k multiplies distances (hence amplitudes) by k',
                      res['cell']['dist'][idx] ** 2 == k * k * res['base']['dist'][idx] ** 2)
            prove('scaling the time step by s divides the diffusivity by s', res['time']['D'] * sfac == res['base']['D'])
            prove('scaling the time step leaves the particle density unchanged', res['time']['rho'] == res['base']['rho'])
            sample(dict(T=T, A=A, lattice=lat, k=str(k), s=str(sfac)))

    return symbolic_job(params, body, scaling_job_replay)


def scaling_job_replay(params, inputs):
    import gemdat.metrics as gmx
    import gemdat.trajectory as gt
    T, A, lat = params['T'], params['A'], params['lattice']
    k, sfac = float(F(params['k'])), float(F(params['s']))
    M = pool.lattice_matrices()[lat]
    d, b = _conc_traj(inputs, T, A)
    rel = lambda a, e: abs(a - e) <= 1e-9 * max(abs(e), 1e-300)  # noqa: E731

    def run(MM, tstep):
        m = gmx.TrajectoryMetrics(_mk(gt, d.copy(), b.copy(), MM, tstep, A))
        return float(m.tracer_diffusivity(dimensions=3)), float(m.tracer_diffusivity_center_of_mass(dimensions=3)), float(m.particle_density())
    D0, C0, R0 = run(M, 2e-15)
    D1, C1, R1 = run(np.array(M) * k, 2e-15)
    D2, C2, R2 = run(M, 2e-15 * sfac)
    ok = rel(D1, k * k * D0) and rel(C1, k * k * C0) and rel(R1 * k ** 3, R0) and rel(D2 * sfac, D0) and rel(R2, R0)
    return ok, f'D {D0} {D1} {D2}; Dcom {C0} {C1}; rho {R0} {R1} {R2}; lattice={lat} k={k} s={sfac} d={d.tolist()}'


# --------------------------------------------------------------------------- amplitudes


class _FakeTraj:
    def __init__(self, dist):
        self._d = dist

    def distances_from_base_position(self):
        return self._d


def amplitudes_job(params):
    T, A = params['T'], params['A']

    def body():
        import gemdat.metrics as gmx
        with Patches() as p:
            p.np(gmx)
            dist = S([[0 if t == 0 else sym_real(f'dist_{a}_{t}', 0, 50) for t in range(T)] for a in range(A)])
            m = gmx.TrajectoryMetrics(_FakeTraj(dist))
            try:
                amps = m.amplitudes()
                speed = m.speed()
            except Exception as e:
                event(f'exception:{type(e).__name__}', detail=str(e)[:200])
                return
            for a in range(A):
                for t in range(T):
                    prove('speed = change of the distance from the start', speed[a, t] == dist[a, t] - (dist[a, t - 1] if t else 0))
            prove('vibration amplitudes of all atoms sum to their final distances from the start',
                  core.ssum(list(np.asarray(amps, dtype=object).ravel())) == core.ssum([dist[a, T - 1] for a in range(A)]))
            prove('at least one amplitude per atom', len(amps) >= A)
            sample(dict(T=T, A=A, n_amplitudes=len(amps)))

    return symbolic_job(params, body, amplitudes_job_replay)


def amplitudes_job_replay(params, inputs):
    import gemdat.metrics as gmx
    T, A = params['T'], params['A']
    dist = np.array([[0.0 if t == 0 else float(inputs[f'dist_{a}_{t}']) for t in range(T)] for a in range(A)])
    m = gmx.TrajectoryMetrics(_FakeTraj(dist))
    amps = m.amplitudes()
    ok = abs(float(np.sum(amps)) - float(dist[:, -1].sum())) <= 1e-9 * (1 + abs(dist).max())
    return ok, f'sum(amplitudes)={float(np.sum(amps))} vs final distances {dist[:, -1].tolist()}; distances={dist.tolist()}'


# --------------------------------------------------------------------------- mean / std over parts


def std_job(params):
    T, A, lat = params['T'], params['A'], params['lattice']
    M = pool.lattice_matrices()[lat]
    dt = F(2, 10 ** 15)

    def body():
        import gemdat.metrics as gmx
        import gemdat.trajectory as gt
        import pymatgen.core.trajectory as pt
        with Patches() as p:
            p.np(gt, pt, gmx)
            _consts(p, gmx)
            _patch_metric(p, M)

            class _U:
                @staticmethod
                def ufloat(mean, std):
                    return (mean, std)
            p.set(gmx, 'u', _U)
            parts = []
            for i in range(2):
                lo, hi = F(-1, 2), F(1, 2)
                d = S([[[0 if t == 0 else sym_real(f'p{i}_d_{t}_{a}_{c}', lo, hi) for c in range(3)] for a in range(A)] for t in range(T)])
                b = S([[sym_real(f'p{i}_b_{a}_{c}', 0, 1, hi_strict=True) for c in range(3)] for a in range(A)])
                parts.append(_mk(gt, d, b, M, dt, A))
            z = sym_int('z_ion', -4, 4)
            ms = gmx.TrajectoryMetricsStd(parts)
            try:
                Dm, Dsd = ms.tracer_diffusivity(dimensions=3)
                Cm, Csd = ms.tracer_conductivity(z_ion=z, dimensions=3)
            except Exception as e:
                event(f'exception:{type(e).__name__}', detail=str(e)[:200])
                return
            Ds = [gmx.TrajectoryMetrics(t).tracer_diffusivity(dimensions=3) for t in parts]
            Cs = [gmx.TrajectoryMetrics(t).tracer_conductivity(z_ion=z, dimensions=3) for t in parts]
            for name, (mean, sd), xs in (('diffusivity', (Dm, Dsd), Ds), ('conductivity', (Cm, Csd), Cs)):
                mu = core.ssum(xs) / len(xs)
                var = core.ssum([(x - mu) * (x - mu) for x in xs]) / len(xs)
                prove(f'Std {name}: mean over the parts', mean == mu)
                prove(f'Std {name}: population standard deviation over the parts', conj([sd ** 2 == var, sd >= 0]))
            sample(dict(T=T, A=A))

    return symbolic_job(params, body, None)


REPLAYS = dict(formulas_job=formulas_job_replay, scaling_job=scaling_job_replay, amplitudes_job=amplitudes_job_replay)


def jobs(tier, seed):
    js = []
    if tier == 'quick':
        fm = [(3, 2, 'cubic5', False), (3, 2, 'tric', False), (4, 2, 'hex558', False), (3, 3, 'tric', True), (3, 2, 'cubic5', True)]
        sc = [(3, 2, 'tric', '2', '3/2'), (3, 2, 'cubic5', '3/2', '2')]
        am = [(2, 1), (3, 1), (4, 1), (5, 1), (3, 2)]
        sd = [(3, 1, 'tric')]
    else:
        fm = [(T, A, lat, ident) for (T, A) in ((3, 2), (4, 2), (5, 3)) for lat in ('cubic5', 'tric', 'hex558', 'mono567b110', 'cubic5_rotz')
              for ident in (False, True)]
        sc = [(3, 2, lat, k, s) for lat in pool.ALL_LATTICES + ['rand_a', 'rand_b'] for k, s in (('2', '3/2'), ('1/2', '2'))] + \
             [(3, 2, lat, '3/2', '5/4') for lat in ('cubic5', 'ortho457', 'unit')]
        am = [(T, 1) for T in range(2, 8)] + [(3, 2), (4, 2)]
        sd = [(3, 1, 'tric'), (3, 2, 'cubic5')]
    for T, A, lat, ident in fm:
        js.append(dict(name=f'formulas_T{T}_A{A}_{lat}' + ('_identical' if ident else ''), fn='formulas_job',
                       params=dict(T=T, A=A, lattice=lat, identical=ident)))
    for T, A, lat, k, s in sc:
        js.append(dict(name=f'scaling_T{T}_A{A}_{lat}_k{k.replace("/", "_")}', fn='scaling_job', params=dict(T=T, A=A, lattice=lat, k=k, s=s)))
    for T, A in am:
        js.append(dict(name=f'amplitudes_T{T}_A{A}', fn='amplitudes_job', params=dict(T=T, A=A)))
    for T, A, lat in sd:
        js.append(dict(name=f'std_T{T}_A{A}_{lat}', fn='std_job', params=dict(T=T, A=A, lattice=lat)))
    return js
