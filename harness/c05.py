"""C05 - count matrices, counters, jump diffusivity, occupancy.

exec (unmodified): gemdat.transitions._calculate_transitions_matrix, Transitions.matrix,
Jumps.matrix/_counter/counter/jump_diffusivity, Transitions.occupancy/atom_locations/
occupancy_by_site_type (undecorated via __wrapped__ where memoised).
"""
from __future__ import annotations

import numpy as np
import pandas as pd

from symgem import core, pool
from symgem.core import assume, conj, disj, event, implies, ite, prove, sample, ssum, sym_int
from symgem.runner import open_findings, symbolic_job
from symgem.symnp import Patches, S

PROPERTY = 'C05'
NOSITE = -1

BOUNDS = {
    'quick': 'event tables of k<=3 rows over n<=3 sites (site ids symbolic in [-1,n)); jump tables k<=3, n=3 on 2 pool '
             'lattices (cubic, triclinic), dimensions 1..3; occupancy histories (T,A) in {(3,1),(2,2)} over 3 sites',
    'thorough': 'event tables k<=4, n<=4; jump tables k<=3 on 6 pool lattices (k=4 on the 3-site set), 3- and 4-site sets; occupancy (T,A) in {(4,1),(3,2),(2,3),(3,1)}',
}
OUTSIDE = ['e_act *values* on graph edges (only the edge set is covered, for an arbitrary positive attempt frequency) and activation energies (need the attempt frequency -> scipy periodogram); rates: only the counting part',
           'more rows/sites than the bound']
ASSUMPTIONS = [
    'jump tables contain rows with start != destination, both valid site indices (what _generic_transitions_to_jumps emits; C04)',
    'site geometry concrete (pool); pymatgen Lattice.get_all_distances is executed for real on the concrete sites and compared '
    'against an independent brute-force minimum-image computation within 1e-9 relative',
    'occupancy: no site is occupied more than once per frame on average (count_i <= frames); pymatgen raises for occupancy > 1',
    'FloatWithUnit replaced by identity (float.__new__ cannot hold a symbolic value)',
]
STUBS = ['pymatgen.core.units.FloatWithUnit -> identity',
         'np.unique(axis=0)/np.zeros/symbolic fancy assignment: symgem intercepts (fork on row order/equality, If-term updates '
         'with negative-index wrap-around)']

KF_NOSITE = 'C05-transitions-matrix-nosite'


def _events_df(k, n, lo):
    rows = [[0, sym_int(f'start_{r}', lo, n - 1), sym_int(f'dest_{r}', lo, n - 1), r] for r in range(k)]
    df = pd.DataFrame(data=S(rows), columns=['atom index', 'start site', 'destination site', 'time'])
    return df, [(r[1], r[2]) for r in rows]


def _concrete_df(inputs, k):
    rows = [[0, int(inputs[f'start_{r}']), int(inputs[f'dest_{r}']), r] for r in range(k)]
    return pd.DataFrame(data=np.array(rows, dtype=int).reshape(k, 4),
                        columns=['atom index', 'start site', 'destination site', 'time'])


# --------------------------------------------------------------------------- Transitions.matrix


class _Dummy:
    pass


def tmatrix_job(params):
    import gemdat.transitions as tr
    k, n = params['k'], params['n']
    known = KF_NOSITE in open_findings(PROPERTY)

    def body():
        df, rows = _events_df(k, n, NOSITE)
        t = tr.Transitions.__new__(tr.Transitions)
        t.events = df
        t.sites = [None] * n
        try:
            M = tr.Transitions.matrix.__wrapped__(t)
        except Exception as e:
            event(f'exception:{type(e).__name__}', detail=str(e)[:100])
            return
        prove('matrix shape', tuple(M.shape) == (n, n))
        K = disj([(s == NOSITE) | (d == NOSITE) for s, d in rows])
        for i in range(n):
            for j in range(n):
                cnt = ssum([ite(conj([s == i, d == j]), 1, 0) for s, d in rows])
                prove('Transitions.matrix()[i,j] = number of events i->j', M[i, j] == cnt,
                      known=(KF_NOSITE, K) if known else None)
        sample(dict(k=k, n=n))

    with Patches() as p:
        p.np(tr)
        return symbolic_job(params, body, tmatrix_job_replay,
                            in_known_class=(lambda m: any(v == NOSITE for v in m.values())) if known else None)


def tmatrix_job_replay(params, inputs):
    import gemdat.transitions as tr
    k, n = params['k'], params['n']
    df = _concrete_df(inputs, k)
    t = tr.Transitions.__new__(tr.Transitions)
    t.events = df
    t.sites = [None] * n
    M = tr.Transitions.matrix.__wrapped__(t)
    exp = np.zeros((n, n), dtype=int)
    for s, d in df[['start site', 'destination site']].values.tolist():
        if s >= 0 and d >= 0:
            exp[s, d] += 1
    if M.shape != (n, n) or not (M == exp).all():
        return False, f'matrix {M.tolist()} != counts {exp.tolist()} for (start,dest) rows {df[["start site", "destination site"]].values.tolist()}'
    return True, 'ok'


# --------------------------------------------------------------------------- Jumps bookkeeping


def _jumps_obj(jm, tr, df, lattice_name, site_set, n_float, total_time):
    from pymatgen.core import Lattice
    sites = pool.structure(lattice_name, site_set)
    j = jm.Jumps.__new__(jm.Jumps)
    t = _Dummy()
    t.n_sites = len(sites)
    t.sites = sites
    traj = _Dummy()
    traj.get_lattice = lambda idx=None: Lattice(pool.lattice_matrices()[lattice_name])
    traj.total_time = total_time
    traj.species = ['Li'] * n_float
    j.transitions = t
    j.trajectory = traj
    j.sites = sites
    j.data = df
    j.minimal_residence = 0
    return j, sites


ANGSTROM = 1e-10


def jbook_job(params):
    import gemdat.jumps as jm
    import gemdat.transitions as tr
    k, lat, sset, dims = params['k'], params['lattice'], params['sites'], params['dims']
    n_float, total_time = params['n_float'], params['total_time']
    coords, labels = pool.SITE_SETS[sset]
    n = len(coords)
    M_lat = pool.lattice_matrices()[lat]
    D2 = [[pool.min_image_dist2(M_lat, coords[i], coords[j]) for j in range(n)] for i in range(n)]

    def body():
        df, rows = _events_df(k, n, 0)
        df['start time'] = df['time']
        df['stop time'] = df['time'] + 1
        for s, d in rows:
            assume(s != d)
        j, sites = _jumps_obj(jm, tr, df, lat, sset, n_float, total_time)
        try:
            M = jm.Jumps.matrix.__wrapped__(j)
            cnt = {(i, jj): ssum([ite(conj([s == i, d == jj]), 1, 0) for s, d in rows]) for i in range(n) for jj in range(n)}
            prove('matrix shape', tuple(M.shape) == (n, n))
            for i in range(n):
                for jj in range(n):
                    prove('Jumps.matrix()[i,j] = number of jumps i->j', M[i, jj] == cnt[(i, jj)])
                prove('jump matrix has an empty diagonal', M[i, i] == 0)
            prove('jump matrix sums to n_jumps', ssum(M.ravel().tolist()) == j.n_jumps)
            prove('n_jumps = number of rows', j.n_jumps == k)
            # jump diffusivity (linear in the symbolic counts; geometry concrete)
            for dim in dims:
                Dj = jm.Jumps.jump_diffusivity.__wrapped__(j, dim)
                exp = ssum([ssum([ite(conj([s == i, d == jj]), core.rat(D2[i][jj]), 0) for i in range(n) for jj in range(n)])
                            for s, d in rows]) * core.rat(ANGSTROM) ** 2 / (2 * dim * n_float * core.rat(total_time))
                scale = core.rat(max(max(r) for r in D2)) * k * core.rat(ANGSTROM) ** 2 / (2 * dim * n_float * core.rat(total_time))
                tol = scale * core.rat(1e-9)
                prove('jump diffusivity = sum d^2(origin,destination) A^2 / (2 d N t)',
                      conj([Dj - exp <= tol, exp - Dj <= tol]))
            # counters (hashing concretises the site ids: forks over their values)
            c_idx = jm.Jumps._counter.__wrapped__(j)
            tot = 0
            for (a, b), v in c_idx.items():
                a, b = int(a), int(b)
                prove('_counter entry = matrix entry', cnt[(a, b)] == v)
                tot += v
            prove('_counter sums to n_jumps', tot == k)
            c_lab = jm.Jumps.counter.__wrapped__(j)
            for la in sorted(set(labels)):
                for lb in sorted(set(labels)):
                    e = ssum([cnt[(i, jj)] for i in range(n) for jj in range(n) if labels[i] == la and labels[jj] == lb])
                    prove('counter()[label pair] = sum of matrix entries with these labels', c_lab[(la, lb)] == e)
            prove('counter() has no other keys', set(c_lab) <= {(la, lb) for la in labels for lb in labels})
        except Exception as e:
            event(f'exception:{type(e).__name__}', detail=str(e)[:200])
            return
        sample(dict(k=k, lattice=lat, sites=sset))

    with Patches() as p:
        p.np(tr, jm)
        p.set(jm, 'FloatWithUnit', lambda x, unit: x)
        return symbolic_job(params, body, jbook_job_replay)


def jbook_job_replay(params, inputs):
    import gemdat.jumps as jm
    import gemdat.transitions as tr
    k, lat, sset, dims = params['k'], params['lattice'], params['sites'], params['dims']
    n_float, total_time = params['n_float'], params['total_time']
    coords, labels = pool.SITE_SETS[sset]
    n = len(coords)
    df = _concrete_df(inputs, k)
    df['start time'] = df['time']
    df['stop time'] = df['time'] + 1
    j, sites = _jumps_obj(jm, tr, df, lat, sset, n_float, total_time)
    rows = df[['start site', 'destination site']].values.tolist()
    exp = np.zeros((n, n), dtype=int)
    for s, d in rows:
        exp[s, d] += 1
    M = j.matrix()
    if not (M == exp).all():
        return False, f'Jumps.matrix {M.tolist()} != counts {exp.tolist()} rows={rows}'
    if M.sum() != k or np.trace(M) != 0:
        return False, f'matrix sum/diagonal wrong: {M.tolist()} rows={rows}'
    Mlat = pool.lattice_matrices()[lat]
    for dim in dims:
        got = float(j.jump_diffusivity(dim))
        e = sum(pool.min_image_dist2(Mlat, coords[s], coords[d]) for s, d in rows) * ANGSTROM ** 2 / (2 * dim * n_float * total_time)
        if abs(got - e) > 1e-9 * max(abs(e), 1e-300):
            return False, f'jump_diffusivity({dim})={got} != {e} rows={rows} lattice={lat}'
    c = j._counter()
    if sum(c.values()) != k or any(c[(s, d)] != exp[s, d] for s in range(n) for d in range(n) if exp[s, d] or (s, d) in c):
        return False, f'_counter {dict(c)} inconsistent with matrix {exp.tolist()}'
    cl = j.counter()
    for la in set(labels):
        for lb in set(labels):
            e = sum(exp[i, jj] for i in range(n) for jj in range(n) if labels[i] == la and labels[jj] == lb)
            if cl[(la, lb)] != e:
                return False, f'counter[{la},{lb}]={cl[(la, lb)]} != {e} rows={rows}'
    return True, 'ok'


# --------------------------------------------------------------------------- occupancy


def _transitions_obj(tr, states, sset, lat, n_float):
    sites = pool.structure(lat, sset)
    t = tr.Transitions.__new__(tr.Transitions)
    t.sites = sites
    t.states = states
    d = _Dummy()
    d.species = ['Li'] * n_float
    t.diff_trajectory = d
    return t, sites


def occupancy_job(params):
    import gemdat.transitions as tr
    T, A, sset, lat = params['T'], params['A'], params['sites'], params['lattice']
    coords, labels = pool.SITE_SETS[sset]
    n = len(coords)

    def body():
        st = S([[sym_int(f's_{t}_{a}', NOSITE, n - 1) for a in range(A)] for t in range(T)])
        flat = st.ravel().tolist()
        cnts = [ssum([ite(v == i, 1, 0) for v in flat]) for i in range(n)]
        for i in range(n):
            assume(cnts[i] <= T)  # pymatgen refuses site occupancies above 1
        t, sites = _transitions_obj(tr, st, sset, lat, A)
        try:
            occ = t.occupancy()
            loc = t.atom_locations()
            byt = t.occupancy_by_site_type()
        except Exception as e:
            event(f'exception:{type(e).__name__}', detail=str(e)[:200])
            return
        prove('one occupancy entry per site', len(occ) == n)
        tol = core.rat(1e-9)
        for i in range(n):
            o = core.rat(float(occ[i].species.num_atoms))
            prove('occupancy[i] = fraction of frames site i holds an atom',
                  conj([o * T - cnts[i] <= tol, cnts[i] - o * T <= tol]))
        at_sites = ssum([ite(v != NOSITE, 1, 0) for v in flat])
        tot = core.rat(float(sum(float(s.species.num_atoms) for s in occ)))
        prove('occupancies add up to atom-frames at sites / frames', conj([tot * T - at_sites <= tol, at_sites - tot * T <= tol]))
        for lb in sorted(set(labels)):
            e = ssum([cnts[i] for i in range(n) if labels[i] == lb])
            m = sum(1 for l in labels if l == lb)
            got = core.rat(float(loc.get(lb, 0.0)))
            prove('atom_locations[label] = atom-frames at sites of that label / (frames * atoms)',
                  conj([got * T * A - e <= tol, e - got * T * A <= tol]))
            got2 = core.rat(float(byt.get(lb, 0.0)))
            prove('occupancy_by_site_type[label] = mean occupancy of sites with that label',
                  conj([got2 * T * m - e <= tol, e - got2 * T * m <= tol]))
        sample(dict(T=T, A=A, sites=sset))

    with Patches() as p:
        p.np(tr)
        return symbolic_job(params, body, occupancy_job_replay)


def occupancy_job_replay(params, inputs):
    import gemdat.transitions as tr
    T, A, sset, lat = params['T'], params['A'], params['sites'], params['lattice']
    coords, labels = pool.SITE_SETS[sset]
    n = len(coords)
    st = np.array([[int(inputs[f's_{t}_{a}']) for a in range(A)] for t in range(T)], dtype=int)
    t, sites = _transitions_obj(tr, st, sset, lat, A)
    occ = t.occupancy()
    for i in range(n):
        e = float((st == i).sum()) / T
        if abs(float(occ[i].species.num_atoms) - e) > 1e-9:
            return False, f'occupancy[{i}]={float(occ[i].species.num_atoms)} != {e}; states={st.T.tolist()}'
    e = float((st != NOSITE).sum()) / T
    tot = sum(float(s.species.num_atoms) for s in occ)
    if abs(tot - e) > 1e-9:
        return False, f'sum of occupancies {tot} != {e}; states={st.T.tolist()}'
    loc = t.atom_locations()
    byt = t.occupancy_by_site_type()
    for lb in set(labels):
        idx = [i for i in range(n) if labels[i] == lb]
        e = sum(float((st == i).sum()) for i in idx)
        if abs(loc.get(lb, 0.0) - e / (T * A)) > 1e-9:
            return False, f'atom_locations[{lb}]={loc.get(lb)} != {e / (T * A)}; states={st.T.tolist()}'
        if abs(byt.get(lb, 0.0) - e / (T * len(idx))) > 1e-9:
            return False, f'occupancy_by_site_type[{lb}]={byt.get(lb)} != {e / (T * len(idx))}; states={st.T.tolist()}'
    return True, 'ok'


# --------------------------------------------------------------------------- rates (aggregation over time parts)


def _rates_setup(jm, tr, s, T, A, inner=None):
    from pymatgen.core import Structure
    from harness import c19
    inner = s if inner is None else inner
    ev = tr._calculate_transition_events(atom_sites=s, atom_inner_sites=inner)
    traj = c19._traj(T, A)
    sites = Structure(np.eye(3) * 5.0, ['Li'] * 3, [[0.1, 0.1, 0.1], [0.5, 0.1, 0.1], [0.1, 0.5, 0.5]], labels=['A', 'A', 'B'])
    t = tr.Transitions(trajectory=traj, diff_trajectory=traj, sites=sites, events=ev, states=s, inner_states=inner)
    return t, traj


def rates_job(params):
    """Jumps.rates(n_parts): the per-label-pair rate is the mean part count / (atoms x part time), and the part counts are a
    consistent aggregation of the whole counter (never more than it).  With `m` given, the inner-site states are symbolic as well
    (NOSITE or equal to the outer state) and the jumps are built with minimal_residence=m, which the parts must inherit."""
    import gemdat.jumps as jm
    import gemdat.transitions as tr
    T, A, n_parts, m = params['T'], params['A'], params['n_parts'], params.get('m')

    def body():
        s = S([[sym_int(f's_{t}_{a}', NOSITE, 2) for a in range(A)] for t in range(T)])
        inner = None
        if m is not None:
            inner = S([[sym_int(f'i_{t}_{a}', NOSITE, 2) for a in range(A)] for t in range(T)])
            for t_ in range(T):
                for a in range(A):
                    assume((inner[t_, a] == NOSITE) | (inner[t_, a] == s[t_, a]))
        assume(disj([s[t, a] != s[t + 1, a] for t in range(T - 1) for a in range(A)]))
        try:
            t, traj = _rates_setup(jm, tr, s, T, A, inner)
            jumps = jm.Jumps(t, minimal_residence=m or 0)
        except ValueError as e:
            if 'No jumps found' in str(e):
                return
            event(f'exception:{type(e).__name__}', detail=str(e)[:100])
            return
        whole = jumps.counter()
        try:
            rates = jm.Jumps.rates.__wrapped__(jumps, n_parts)
        except ValueError as e:
            if 'No jumps found' in str(e) or 'Not enough transitions' in str(e):
                return   # documented: a part without jumps / fewer events than parts
            event(f'exception:{type(e).__name__}', detail=str(e)[:100])
            return
        denom = A * (traj.total_time / n_parts)
        for pair in jumps.site_pairs:
            r = float(rates.loc[pair, 'rates'])
            total_parts = r * denom * n_parts
            prove('rate x atoms x part time x n_parts is a whole number of jumps', abs(total_parts - round(total_parts)) < 1e-6)
            prove('jump counts of the parts never add up to more than the counter of the whole (rates consistent with the count matrix)',
                  round(total_parts) <= whole[pair], detail=dict(pair=list(pair), parts=round(total_parts), whole=whole[pair]))
        sample(dict(T=T, A=A, n_parts=n_parts, jumps=int(jumps.n_jumps)))

    return symbolic_job(params, body, rates_job_replay)


def rates_job_replay(params, inputs):
    import gemdat.jumps as jm
    import gemdat.transitions as tr
    T, A, n_parts, m = params['T'], params['A'], params['n_parts'], params.get('m')
    s = np.array([[int(inputs[f's_{t}_{a}']) for a in range(A)] for t in range(T)], dtype=int)
    inner = None if m is None else np.array([[int(inputs[f'i_{t}_{a}']) for a in range(A)] for t in range(T)], dtype=int)
    try:
        t, traj = _rates_setup(jm, tr, s, T, A, inner)
        jumps = jm.Jumps(t, minimal_residence=m or 0)
        whole = jumps.counter()
        rates = jumps.rates(n_parts)
    except ValueError as e:
        return True, f'documented ValueError: {e}'
    denom = A * (traj.total_time / n_parts)
    for pair in jumps.site_pairs:
        tot = float(rates.loc[pair, 'rates']) * denom * n_parts
        if round(tot) > whole[pair] or abs(tot - round(tot)) > 1e-6:
            return False, (f'rates imply {tot} jumps {pair} over the parts but the whole has {whole[pair]}; states={s.T.tolist()} '
                           f'inner={None if inner is None else inner.T.tolist()} minimal_residence={m or 0} n_parts={n_parts}')
    return True, 'ok'


# --------------------------------------------------------------------------- jump graph


class _FakeMetrics:
    def __init__(self, nu):
        self._nu = nu

    def attempt_frequency(self):
        return self._nu, 0


def graph_job(params):
    """Jumps.to_graph(): nodes = sites (with labels), edge set = support of the jump count matrix when no energy window is given;
    the attempt frequency (scipy periodogram) is an arbitrary positive real, the temperature an arbitrary positive real."""
    import gemdat.jumps as jm
    import gemdat.transitions as tr
    from symgem.core import sym_real
    T, A = params['T'], params['A']

    def body():
        with Patches() as p:
            p.np(jm, tr)
            s = S([[sym_int(f's_{t}_{a}', NOSITE, 2) for a in range(A)] for t in range(T)])
            assume(disj([s[t, a] != s[t + 1, a] for t in range(T - 1) for a in range(A)]))
            # occupancy of a site must not exceed 1 (pymatgen), cf. occupancy_job
            for i in range(3):
                assume(ssum([ite(v == i, 1, 0) for v in s.ravel().tolist()]) <= T)
            nu = sym_real('attempt_frequency', 0, 10 ** 14, lo_strict=True)
            temp = sym_real('temperature', 0, 3000, lo_strict=True)
            try:
                t, traj = _rates_setup(jm, tr, s, T, A)
                traj.metadata = {'temperature': temp}
                traj.metrics = lambda: _FakeMetrics(nu)
                jumps = jm.Jumps(t)
            except ValueError as e:
                if 'No jumps found' in str(e):
                    return
                event(f'exception:{type(e).__name__}', detail=str(e)[:100])
                return
            try:
                G = jm.Jumps.to_graph.__wrapped__(jumps)
            except Exception as e:
                event(f'exception:{type(e).__name__}', detail=str(e)[:200])
                return
            M = jumps.matrix()
            support = {(i, j) for i in range(3) for j in range(3) if int(M[i, j]) > 0}
            prove('graph nodes = sites, labelled', sorted(G.nodes) == [0, 1, 2] and [G.nodes[i]['label'] for i in range(3)] == ['A', 'A', 'B'])
            prove('jump graph edge set = support of the jump count matrix', {(int(a), int(b)) for a, b in G.edges} == support,
                  detail=dict(edges=sorted((int(a), int(b)) for a, b in G.edges), support=sorted(support)))
            sample(dict(T=T, A=A, edges=len(support)))

    return symbolic_job(params, body, graph_job_replay)


def graph_job_replay(params, inputs):
    import gemdat.jumps as jm
    import gemdat.transitions as tr
    T, A = params['T'], params['A']
    s = np.array([[int(inputs[f's_{t}_{a}']) for a in range(A)] for t in range(T)], dtype=int)
    nu, temp = float(inputs['attempt_frequency']), float(inputs['temperature'])
    try:
        t, traj = _rates_setup(jm, tr, s, T, A)
        traj.metadata = {'temperature': temp}
        traj.metrics = lambda: _FakeMetrics(nu)
        jumps = jm.Jumps(t)
    except ValueError as e:
        return True, f'documented ValueError: {e}'
    G = jumps.to_graph()
    M = jumps.matrix()
    support = {(i, j) for i in range(3) for j in range(3) if M[i, j] > 0}
    got = {(int(a), int(b)) for a, b in G.edges}
    return got == support, f'graph edges {sorted(got)} vs support of the jump matrix {sorted(support)}; states={s.T.tolist()}'


REPLAYS = dict(tmatrix_job=tmatrix_job_replay, jbook_job=jbook_job_replay, occupancy_job=occupancy_job_replay, rates_job=rates_job_replay,
               graph_job=graph_job_replay)


def jobs(tier, seed):
    js = []
    if tier == 'quick':
        tm = [(k, n) for k in (1, 2, 3) for n in (1, 2, 3)]
        jb = [(1, 'cubic5', 'three'), (2, 'cubic5', 'three'), (3, 'tric', 'three'), (2, 'hex558', 'face')]
        oc = [(3, 1, 'three'), (2, 2, 'three'), (1, 1, 'two')]
    else:
        tm = [(k, n) for k in (1, 2, 3, 4) for n in (1, 2, 3, 4)]
        jb = [(k, lat, 'three') for k in (1, 2, 3) for lat in ('cubic5', 'tric', 'hex558', 'cubic5_rotz')] + \
             [(3, 'mono567b110', 'four'), (3, 'rhomb60', 'face'), (4, 'tric', 'three')]
        oc = [(4, 1, 'three'), (3, 2, 'three'), (2, 3, 'three'), (3, 1, 'four'), (1, 1, 'two')]
    for k, n in tm:
        js.append(dict(name=f'tmatrix_k{k}_n{n}', fn='tmatrix_job', params=dict(k=k, n=n)))
    for k, lat, ss in jb:
        js.append(dict(name=f'jbook_k{k}_{lat}_{ss}', fn='jbook_job',
                       params=dict(k=k, lattice=lat, sites=ss, dims=[1, 2, 3], n_float=2, total_time=7e-12)))
    for T, A, ss in oc:
        js.append(dict(name=f'occupancy_T{T}_A{A}_{ss}', fn='occupancy_job', params=dict(T=T, A=A, sites=ss, lattice='cubic5')))
    for T, A in ([(3, 1), (4, 1)] if tier == 'quick' else [(3, 1), (4, 1), (5, 1)]):
        js.append(dict(name=f'graph_T{T}_A{A}', fn='graph_job', params=dict(T=T, A=A)))
    for T, A, n in ([(4, 1, 2), (5, 1, 2)] if tier == 'quick' else [(4, 1, 2), (5, 1, 2), (6, 1, 2), (6, 1, 3)]):
        js.append(dict(name=f'rates_T{T}_A{A}_p{n}', fn='rates_job', params=dict(T=T, A=A, n_parts=n)))
    for T, A, n, m in ([(4, 1, 1, 3), (4, 1, 2, 2)] if tier == 'quick' else [(4, 1, 1, 3), (4, 1, 2, 2), (5, 1, 2, 2), (5, 1, 1, 3), (5, 1, 1, 4)]):
        js.append(dict(name=f'rates_T{T}_A{A}_p{n}_inner_m{m}', fn='rates_job', params=dict(T=T, A=A, n_parts=n, m=m)))
    return js
