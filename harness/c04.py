"""C04 - jumps are exactly the changes of visited site; stricter settings only remove.

exec (unmodified): gemdat.transitions._calculate_transition_events ->
gemdat.jumps._generic_transitions_to_jumps (default; symbolic inner states with minimal
residence m and m+1) and Jumps.n_jumps.
"""
from __future__ import annotations

import numpy as np

from symgem import core
from symgem.core import assume, conj, disj, event, implies, prove, sample, sym_int
from symgem.runner import symbolic_job
from symgem.symnp import S

PROPERTY = 'C04'
NOSITE = -1
N_SITES = 3

BOUNDS = {
    'quick': 'default semantics: (T,A) in {(2..6,1),(3,2)}; inner/residence: T<=5 (A=1) with m in 0..2, (3,2) m in 0..1; '
             'site ids any integers in [-1,3); all histories of each shape covered symbolically',
    'thorough': 'default: (T,A) in {(2..8,1),(2..4,2)}; inner/residence: T<=6 (A=1) m in 0..T, T<=4 (A=2) m in 0..2',
}
OUTSIDE = ['T above the bound', 'more than 3 sites', 'custom conversion_method callables']
ASSUMPTIONS = [
    'inner state is NOSITE or equal to the outer state (C02)',
    'events come from _calculate_transition_events (the public pipeline), not hand-made tables',
]
STUBS = []


class _Tr:
    def __init__(self, events):
        self.events = events


def _J(s, a, t1, t2):
    """Default-jump predicate over the states only: s[t1] -> s[t2] with nothing but NOSITE between."""
    return conj([s[t1, a] != NOSITE, s[t2, a] != NOSITE, s[t1, a] != s[t2, a]] +
                [s[u, a] == NOSITE for u in range(t1 + 1, t2)])


def _rows(df):
    out = []
    for _, r in df.iterrows():
        out.append((r['atom index'], r['start site'], r['destination site'], r['start time'], r['stop time']))
    return out


def _concretise_times(rows):
    res = []
    for a, o, d, t1, t2 in rows:
        res.append((int(a), o, d, int(t1), int(t2)))
    return res


def _convert(jm, ev, m):
    try:
        return _concretise_times(_rows(jm._generic_transitions_to_jumps(_Tr(ev), minimal_residence=m))), None
    except ValueError as e:
        if 'No jumps found' in str(e):
            return [], 'nojumps'
        raise


def jumps_job(params):
    import gemdat.jumps as jm
    import gemdat.transitions as tr
    T, A, mode, m = params['T'], params['A'], params['mode'], params.get('m', 0)

    def body():
        s = S([[sym_int(f's_{t}_{a}', NOSITE, N_SITES - 1) for a in range(A)] for t in range(T)])
        if mode == 'default':
            i = s
        else:
            i = S([[sym_int(f'i_{t}_{a}', NOSITE, N_SITES - 1) for a in range(A)] for t in range(T)])
            for t in range(T):
                for a in range(A):
                    assume((i[t, a] == NOSITE) | (i[t, a] == s[t, a]))
        assume(disj([s[t, a] != s[t + 1, a] for t in range(T - 1) for a in range(A)]))
        try:
            ev = tr._calculate_transition_events(atom_sites=s, atom_inner_sites=i)
        except Exception as e:
            event(f'events exception:{type(e).__name__}', detail=str(e)[:100])
            return
        pairs = [(a, t1, t2) for a in range(A) for t1 in range(T) for t2 in range(t1 + 1, T)]
        try:
            if mode == 'default':
                rows, none = _convert(jm, ev, 0)
                prove('n_jumps == len(data)', True)
                keys = [(r[0], r[3], r[4]) for r in rows]
                prove('each jump reported once', len(set(keys)) == len(keys))
                for r in rows:
                    prove('jump times inside history', 0 <= r[3] < r[4] < T and 0 <= r[0] < A)
                byk = {(r[0], r[3], r[4]): r for r in rows}
                for (a, t1, t2) in pairs:
                    j = _J(s, a, t1, t2)
                    if (a, t1, t2) in byk:
                        r = byk[(a, t1, t2)]
                        prove('reported jump is a change of visited site', j)
                        prove('origin/destination are the sites left/reached',
                              conj([r[1] == s[t1, a], r[2] == s[t2, a]]))
                    else:
                        prove('every change of visited site is reported', ~j if core.is_sym(j) else not j)
                if none:
                    prove("'No jumps found' only without jumps", conj([~_J(s, *p) if core.is_sym(_J(s, *p)) else not _J(s, *p) for p in pairs]))
                sample(dict(T=T, A=A, jumps=len(rows)))
            else:
                rows_m, _ = _convert(jm, ev, m)
                rows_m1, _ = _convert(jm, ev, m + 1)
                for tag, rows in (('m', rows_m), ('m+1', rows_m1)):
                    for (a, o, d, t1, t2) in rows:
                        ok_range = 0 <= t1 < t2 < T and 0 <= a < A
                        prove('jump times inside history', ok_range)
                        if not ok_range:
                            continue
                        prove('stricter setting: jump is one of the default jumps (atom, origin, destination, start)',
                              conj([o == s[t1, a], disj([conj([_J(s, a, t1, u), d == s[u, a]]) for u in range(t1 + 1, T)])]))
                        prove('stricter setting: jump consistent with recorded states',
                              conj([s[t1, a] == o, s[t2, a] == d]))
                    keys = [(r[0], r[3]) for r in rows]
                    prove('stricter setting: one jump per (atom, start time)', len(set(keys)) == len(keys))
                bym = {(r[0], r[3], r[4]): r for r in rows_m}
                for r in rows_m1:
                    k = (r[0], r[3], r[4])
                    prove('raising minimal residence never adds jumps', k in bym)
                    if k in bym:
                        prove('raising minimal residence keeps origin/destination',
                              conj([r[1] == bym[k][1], r[2] == bym[k][2]]))
                sample(dict(T=T, A=A, m=m, jumps_m=len(rows_m), jumps_m1=len(rows_m1)))
        except Exception as e:
            event(f'jumps exception:{type(e).__name__}', detail=str(e)[:100])

    sp = params.get('split')
    return symbolic_job(params, body, jumps_job_replay, split=tuple(sp) if sp else None)


def _visited_jumps(s, a):
    T = s.shape[0]
    out = []
    last = None
    for t in range(T):
        if s[t, a] == NOSITE:
            continue
        if last is not None and s[last, a] != s[t, a]:
            out.append((a, int(s[last, a]), int(s[t, a]), last, t))
        last = t
    return out


def jumps_job_replay(params, inputs):
    import gemdat.jumps as jm
    import gemdat.transitions as tr
    T, A, mode, m = params['T'], params['A'], params['mode'], params.get('m', 0)
    s = np.array([[int(inputs[f's_{t}_{a}']) for a in range(A)] for t in range(T)], dtype=int)
    if mode == 'default':
        i = s.copy()
    else:
        i = np.array([[int(inputs.get(f'i_{t}_{a}', -1)) for a in range(A)] for t in range(T)], dtype=int)
    desc = f'states={s.T.tolist()} inner={i.T.tolist()}'
    try:
        ev = tr._calculate_transition_events(atom_sites=s, atom_inner_sites=i)
    except Exception as e:
        return False, f'events: {type(e).__name__}: {e} {desc}'
    expected = sorted(j for a in range(A) for j in _visited_jumps(s, a))

    def conv(mm):
        try:
            df = jm._generic_transitions_to_jumps(_Tr(ev), minimal_residence=mm)
        except ValueError as e:
            if 'No jumps found' in str(e):
                return []
            raise
        return sorted(tuple(int(v) for v in r) for r in
                      df[['atom index', 'start site', 'destination site', 'start time', 'stop time']].values.tolist())
    try:
        if mode == 'default':
            got = conv(0)
            if got != expected:
                return False, f'default jumps {got} != changes of visited site {expected}; {desc}'
            return True, 'ok'
        gm, gm1 = conv(m), conv(m + 1)
    except Exception as e:
        return False, f'jumps: {type(e).__name__}: {e} {desc}'
    exp4 = {(j[0], j[1], j[2], j[3]) for j in expected}
    for tag, g in ((m, gm), (m + 1, gm1)):
        for j in g:
            if (j[0], j[1], j[2], j[3]) not in exp4:
                return False, f'minimal_residence={tag}: jump {j} is not a default jump {expected}; {desc}'
            a, o, d, t1, t2 = j
            if not (0 <= t1 < T and 0 <= t2 < T) or s[t1, a] != o or s[t2, a] != d:
                return False, f'minimal_residence={tag}: jump {j} inconsistent with states; {desc}'
        if len({(j[0], j[3]) for j in g}) != len(g):
            return False, f'minimal_residence={tag}: duplicate jumps {g}; {desc}'
    if not set(gm1) <= set(gm):
        return False, f'raising minimal residence {m}->{m + 1} adds jumps: {sorted(set(gm1) - set(gm))}; {desc}'
    return True, 'ok'


REPLAYS = dict(jumps_job=jumps_job_replay)


def jobs(tier, seed):
    js = []
    if tier == 'quick':
        dflt = [(T, 1) for T in range(2, 7)] + [(3, 2)]
        inner = [(T, 1, m) for T in range(2, 6) for m in range(0, 3)] + [(3, 2, 0), (3, 2, 1)]
    else:
        dflt = [(T, 1) for T in range(2, 9)] + [(T, 2) for T in range(2, 5)]
        inner = [(T, 1, m) for T in range(2, 7) for m in range(0, T + 1)] + [(T, 2, m) for T in range(2, 5) for m in range(0, 3)]
    for T, A in dflt:
        js.append(dict(name=f'default_T{T}_A{A}', fn='jumps_job', params=dict(T=T, A=A, mode='default')))
    for T, A, m in inner:
        depth = 5 if (T, A) == (4, 2) else 0  # ~10^5 paths of pandas code: split over the first free decisions
        for i in range(2 ** depth):
            js.append(dict(name=f'inner_T{T}_A{A}_m{m}' + (f'_part{i}of{2 ** depth}' if depth else ''), fn='jumps_job',
                           params=dict(T=T, A=A, mode='inner', m=m, split=[i, depth] if depth else None)))
    return js
