"""C18 - orientation vectors are minimum-image bonds; transforms / autocorrelation exact.

exec (unmodified): gemdat.orientations.Orientations.__post_init__ / _distances / _matching_matrix / _central_satellite_matrix /
_fractional_directions / normalize / symmetrize / transform / vectors_spherical / autocorrelation,
gemdat.utils.fft_autocorrelation / cartesian_to_spherical, Trajectory.filter / get_lattice.
"""
from __future__ import annotations

from fractions import Fraction as F

import numpy as np

from symgem import core, pool, symnp
from symgem.core import SRoot, assume, conj, event, implies, prove, prove_isolated, sample, sym_real
from symgem.runner import open_findings, symbolic_job
from symgem.stubs import LatticeProxy
from symgem.symnp import Patches, S

PROPERTY = 'C18'
KF_IRFFT = 'C18-autocorrelation-irfft-length'

BOUNDS = {
    'quick': 'vectors: tetrahedral B-H4 cluster (frame 0 concrete, 2 clusters: interior and with bonds through cell faces), frames 1..T-1 with '
             'the centre anywhere in the cell and bond offsets any reals in [-0.12,0.12] fractional, T=3, lattices cubic5, tric; normalize / '
             'symmetrize (point groups 1, -1, 2/m, mmm, 4/mmm, m-3m) / transform (symbolic 3x3 matrix) on symbolic vectors (T=2, 2 bonds); '
             'autocorrelation T in {2,3}, 1-2 vectors',
    'thorough': 'T=4 vectors on 5 lattices; all point groups with orthogonal matrices pymatgen lists; autocorrelation T<=4',
}
OUTSIDE = ['vector length = periodic distance as a separate nlsat identity (it follows from vector = minimum-image offset x lattice and the 27-image lemma; the direct query needs ~10 min and is not registered)', 'numerical inverse of the spherical map (arcsin/arctan2 uninterpreted: r and the exact argument structure of both angles are checked)',
           'more than one centre atom', 'hexagonal / trigonal point groups (operation matrices not orthogonal in the Cartesian setting pymatgen uses)']
ASSUMPTIONS = [
    'bond length well below half the cell width: fractional bond offsets within 0.12',
    'np.fft.rfft/irfft: irfft(|rfft(x, n)|^2, n) = circular autocorrelation of x zero-padded to n; an inverse transform with another length is '
    'unconstrained (decided by concrete replay)',
    'frame 0 is concrete (it only selects which satellites belong to which centre)',
]
STUBS = ['pymatgen Lattice (gemdat.trajectory) -> LatticeProxy', 'np.fft (Wiener-Khinchin contract)', 'np.arcsin/arctan2/degrees uninterpreted',
         'np.linalg.norm -> distance by its square; symbolic division -> quotient symbol']

TETRA = [[0.08, 0.08, 0.08], [-0.08, -0.08, 0.08], [-0.08, 0.08, -0.08], [0.08, -0.08, -0.08]]
CLUSTERS = {'interior': [0.4, 0.5, 0.6], 'faces': [0.97, 0.02, 0.99]}


def _patch(p, lat):
    import gemdat.orientations as go
    import gemdat.trajectory as gt
    import gemdat.utils as gu
    import pymatgen.core.trajectory as pt
    from pymatgen.core import Lattice
    p.np(gt, pt, go, gu)
    p.set(core, 'FLOOR_FORK', True)
    p.set(gt, 'Lattice', lambda m: LatticeProxy(Lattice(np.asarray(m, dtype=float))))
    return go, gt, gu


def vectors_job(params):
    lat, T, cluster = params['lattice'], params['T'], params['cluster']
    M = pool.lattice_matrices()[lat]

    def body():
        from pymatgen.core import Lattice, Species
        with Patches() as p:
            go, gt, gu = _patch(p, lat)
            with_length = params.get('length', False)
            # the bond-vector identity is linear (floor terms merged, no forks); the length identity is quadratic and is
            # checked in a reduced job (centre symbolic along one axis) with floors decided by forking
            p.set(core, 'FLOOR_FORK', bool(with_length))
            LP = LatticeProxy(Lattice(M))
            Mr = np.asarray(LP.Mr)
            c0 = CLUSTERS[cluster]
            frames = []
            frames.append([[float(np.mod(v, 1)) for v in c0]] + [[float(np.mod(c0[i] + d[i], 1)) for i in range(3)] for d in TETRA])
            cents, deltas = {}, {}
            for t in range(1, T):
                if with_length:
                    c = [sym_real(f'c_{t}_{i}', 0, 1, hi_strict=True) if i == params.get('axis', 0) else core.rat([0.98, 0.03, 0.5][i]) for i in range(3)]
                else:
                    c = [sym_real(f'c_{t}_{i}', 0, 1, hi_strict=True) for i in range(3)]
                cents[t] = c
                row = [c]
                for k in range(4):
                    dlt = [sym_real(f'd_{t}_{k}_{i}', F(-12, 100), F(12, 100)) for i in range(3)]
                    deltas[(t, k)] = dlt
                    row.append([(c[i] + dlt[i]) - core.sfloor(c[i] + dlt[i]) for i in range(3)])  # wrapped satellite position
                frames.append(row)
            coords = S(frames)
            tr = gt.Trajectory(species=[Species('B')] + [Species('H')] * 4, coords=coords, lattice=M, time_step=1e-15, metadata={})
            try:
                ori = go.Orientations(tr, 'B', 'H')
            except Exception as e:
                event(f'exception:{type(e).__name__}', detail=str(e)[:200])
                return
            V = ori.vectors
            prove('vectors shape (frames, bonds, 3)', tuple(V.shape) == (T, 4, 3))
            for t in range(1, T):
                for k in range(4):
                    exp = [core.ssum([deltas[(t, k)][i] * Mr[i][j] for i in range(3)]) for j in range(3)]
                    for j in range(3):
                        prove_isolated('vector = minimum-image (satellite - centre) in Cartesian coordinates', V[t, k, j] == exp[j], timeout_ms=60000)
                    q = core.ssum([V[t, k, j] * V[t, k, j] for j in range(3)])
                    sat = [coords[t, 1 + k, i] for i in range(3)]
                    qd = LP.dist2_generic(cents[t], sat) if with_length else None
                    if with_length:
                        prove('vector length = periodic centre-satellite distance', q == qd)
            sample(dict(lattice=lat, T=T, cluster=cluster))

    return symbolic_job(params, body, vectors_job_replay, timeout_ms=300000)


def vectors_job_replay(params, inputs):
    import gemdat.orientations as go
    import gemdat.trajectory as gt
    from pymatgen.core import Species
    lat, T, cluster = params['lattice'], params['T'], params['cluster']
    M = np.asarray(pool.lattice_matrices()[lat], dtype=float)
    c0 = CLUSTERS[cluster]
    frames = [[[float(np.mod(v, 1)) for v in c0]] + [[float(np.mod(c0[i] + d[i], 1)) for i in range(3)] for d in TETRA]]
    exp = []
    for t in range(1, T):
        c = [float(inputs[f'c_{t}_{i}']) if f'c_{t}_{i}' in inputs else [0.98, 0.03, 0.5][i] for i in range(3)]
        row = [c]
        for k in range(4):
            d = [float(inputs[f'd_{t}_{k}_{i}']) for i in range(3)]
            row.append([float(np.mod(c[i] + d[i], 1)) for i in range(3)])
            exp.append((t, k, np.array(d) @ M))
        frames.append(row)
    tr = gt.Trajectory(species=[Species('B')] + [Species('H')] * 4, coords=np.array(frames), lattice=M, time_step=1e-15, metadata={})
    V = go.Orientations(tr, 'B', 'H').vectors
    for t, k, e in exp:
        if np.abs(V[t, k] - e).max() > 1e-9:
            return False, f'vector[{t},{k}]={V[t, k].tolist()} != minimum-image bond {e.tolist()}; lattice={lat} cluster={cluster}'
    return True, 'ok'


# --------------------------------------------------------------------------- operations on vectors


class _T:
    time_step = 1e-15


def _ori(go, V):
    return go.Orientations(_T(), 'B', 'H', in_vectors=V)


def ops_job(params):
    group = params['group']

    def body():
        from pymatgen.symmetry.groups import PointGroup
        with Patches() as p:
            go, gt, gu = _patch(p, 'cubic5')
            T, B = 2, 2
            V = S([[[sym_real(f'v_{t}_{b}_{i}', -5, 5) for i in range(3)] for b in range(B)] for t in range(T)])
            o = _ori(go, V.copy())   # the oracle keeps its own pristine copy V
            # normalize
            for t in range(T):
                for b in range(B):
                    assume(core.ssum([V[t, b, i] * V[t, b, i] for i in range(3)]) > 0)
            n = o.normalize().vectors
            for t in range(T):
                for b in range(B):
                    q = core.ssum([V[t, b, i] * V[t, b, i] for i in range(3)])
                    for i in range(3):
                        qp = core.quotient_parts(n[t, b, i])
                        prove('normalize: component is a quotient', qp is not None)
                        if qp is None:
                            return
                        prove_isolated('normalize: numerator is the vector component', qp[0] == V[t, b, i])
                        prove_isolated('normalize: denominator is the (positive) vector length', conj([qp[1] * qp[1] == q, qp[1] > 0]),
                                       given=[q > 0], timeout_ms=60000)
            for idx in np.ndindex(V.shape):
                prove('normalize() leaves the vectors of the source object unchanged', o.vectors[idx] == V[idx])
            # transform
            A = S([[sym_real(f'a_{i}_{j}', -3, 3) for j in range(3)] for i in range(3)])
            tv = o.transform(A).vectors
            for t in range(T):
                for b in range(B):
                    for i in range(3):
                        prove_isolated('transform: matrix applied to every vector', tv[t, b, i] == core.ssum([A[i][j] * V[t, b, j] for j in range(3)]))
            try:
                o.transform(np.eye(2))
                prove('transform rejects non 3x3 matrices', False)
            except ValueError:
                pass
            # symmetrize
            g = PointGroup(group)
            Rs = [np.array(op.rotation_matrix, dtype=float) for op in g.symmetry_ops]
            for R in Rs:
                prove('point-group operation is orthogonal (Cartesian)', bool(np.allclose(R @ R.T, np.eye(3), atol=1e-12)))
            sv = o.symmetrize(sym_group=group).vectors
            n_ops = len(Rs)
            prove('symmetrize: one image per operation and bond', tuple(sv.shape) == (T, B * n_ops, 3))
            for t in range(T):
                for b in range(B):
                    block = [sv[t, b * n_ops + k] for k in range(n_ops)]
                    used = set()
                    for R in Rs:   # every image R v occurs exactly once in the block of this bond
                        e = [core.ssum([core.rat(float(R[i][j])) * V[t, b, j] for j in range(3)]) for i in range(3)]
                        found = None
                        for k in range(n_ops):
                            if k in used:
                                continue
                            if all((block[k][i] == e[i]) is True or (core.is_sym(block[k][i] == e[i]) is False and block[k][i] == e[i]) for i in range(3)):
                                found = k
                                break
                        if found is None:   # fall back to the solver (identical polynomials may print differently)
                            for k in range(n_ops):
                                if k not in used and core.ctx().check(core._bt(~conj([block[k][i] == e[i] for i in range(3)]))) == core.z3.unsat:
                                    found = k
                                    break
                        prove('symmetrize: the images of each vector under the group, one per operation', found is not None)
                        if found is not None:
                            used.add(found)
            # spherical: r
            sph = o.vectors_spherical
            for t in range(T):
                for b in range(B):
                    q = core.ssum([V[t, b, i] * V[t, b, i] for i in range(3)])
                    r = sph[t, b, 2]
                    prove('spherical: r^2 = x^2 + y^2 + z^2', (r ** 2 == q) if isinstance(r, (SRoot, core.SNum)) else False)
                    # angles: arcsin / arctan2 are uninterpreted, so the *terms* must be degrees(arctan2(y, x)) and degrees(arcsin(z / r))
                    az, el = sph[t, b, 0], sph[t, b, 1]
                    DEG, ATAN2, ASIN = symnp._uf('DEGREES', 1), symnp._uf('ATAN2', 2), symnp._uf('ASIN', 1)
                    x_, y_, z_ = (core._real(V[t, b, i]) for i in range(3))
                    prove('spherical: azimuth = degrees(arctan2(y, x))', isinstance(az, core.SNum) and az.t.eq(DEG(ATAN2(y_, x_))))
                    ok_el = False
                    if isinstance(el, core.SNum) and el.t.decl().name() == 'DEGREES' and el.t.arg(0).decl().name() == 'ASIN':
                        qp = core.quotient_parts(core.SNum(el.t.arg(0).arg(0)))
                        ok_el = qp is not None and core.ctx().check(core._bt(~conj([qp[0] == V[t, b, 2], qp[1] * qp[1] == q, qp[1] >= 0]))) == core.z3.unsat
                    prove('spherical: elevation = degrees(arcsin(z / r))', ok_el)
            sample(dict(group=group, operations=n_ops))

    return symbolic_job(params, body, ops_job_replay, timeout_ms=120000)


def ops_job_replay(params, inputs):
    import gemdat.orientations as go
    from pymatgen.symmetry.groups import PointGroup
    group = params['group']
    T, B = 2, 2
    V = np.array([[[float(inputs[f'v_{t}_{b}_{i}']) for i in range(3)] for b in range(B)] for t in range(T)])
    A = np.array([[float(inputs.get(f'a_{i}_{j}', 1.0 if i == j else 0.0)) for j in range(3)] for i in range(3)])
    if (np.linalg.norm(V, axis=-1) < 1e-9).any():
        return True, 'zero vector: outside the claim'
    o = go.Orientations(_T(), 'B', 'H', in_vectors=V.copy())
    n = o.normalize().vectors
    if np.abs(np.linalg.norm(n, axis=-1) - 1).max() > 1e-9 or np.abs(n * np.linalg.norm(V, axis=-1, keepdims=True) - V).max() > 1e-9:
        return False, f'normalize() result is not the unit vector of each input vector; V={V.tolist()}'
    if np.abs(o.vectors - V).max() > 1e-12:
        return False, f'normalize() altered the vectors of the source object: {o.vectors.tolist()} != {V.tolist()}'
    tv = o.transform(A).vectors
    if np.abs(tv - np.einsum('ij,tbj->tbi', A, V)).max() > 1e-9:
        return False, f'transform(A) != A v; V={V.tolist()} A={A.tolist()}'
    Rs = [np.array(op.rotation_matrix, dtype=float) for op in PointGroup(group).symmetry_ops]
    sv = o.symmetrize(sym_group=group).vectors
    for t in range(T):
        for b in range(B):
            got = sorted(tuple(np.round(x, 9)) for x in sv[t, b * len(Rs):(b + 1) * len(Rs)].tolist())
            exp = sorted(tuple(np.round(R @ V[t, b], 9)) for R in Rs)
            if not np.allclose(np.array(got), np.array(exp), atol=1e-8):
                return False, f'symmetrize({group}) block of vector {V[t, b].tolist()} is not its images under the group'
    sph = o.vectors_spherical
    if np.abs(sph[..., 2] - np.linalg.norm(V, axis=-1)).max() > 1e-9:
        return False, 'spherical r != vector length'
    az = np.degrees(np.arctan2(V[..., 1], V[..., 0]))
    el = np.degrees(np.arcsin(V[..., 2] / np.linalg.norm(V, axis=-1)))
    if np.abs(sph[..., 0] - az).max() > 1e-9 or np.abs(sph[..., 1] - el).max() > 1e-9:
        return False, f'spherical angles {sph[..., :2].tolist()} != (degrees(arctan2(y,x)), degrees(arcsin(z/r))) = {np.stack([az, el], -1).tolist()}'
    return True, 'ok'


# --------------------------------------------------------------------------- autocorrelation


def _definition(V, T, P):
    out = {}
    for pth in range(P):
        c0 = core.ssum([V[t, pth, i] * V[t, pth, i] for t in range(T) for i in range(3)]) / T
        for tau in range(T):
            c = core.ssum([V[t, pth, i] * V[t + tau, pth, i] for t in range(T - tau) for i in range(3)]) / (T - tau)
            out[(pth, tau)] = (c, c0)
    return out


def autocorr_job(params):
    T, P, intended = params['T'], params['P'], params['intended_length']
    known = KF_IRFFT in open_findings(PROPERTY)

    def body():
        with Patches() as p:
            go, gt, gu = _patch(p, 'cubic5')
            p.set(symnp, 'ASSUME_IRFFT_INTENDED_LENGTH', bool(intended))
            V = S([[[sym_real(f'v_{t}_{b}_{i}', -2, 2) for i in range(3)] for b in range(P)] for t in range(T)])
            for b in range(P):
                assume(core.ssum([V[t, b, i] * V[t, b, i] for t in range(T) for i in range(3)]) > 0)
            try:
                ac = _ori(go, V).autocorrelation()
            except Exception as e:
                event(f'exception:{type(e).__name__}', detail=str(e)[:200])
                return
            prove('autocorrelation shape (vectors, frames)', tuple(ac.shape) == (P, T))
            d = _definition(V, T, P)
            for b in range(P):
                for tau in range(T):
                    c, c0 = d[(b, tau)]
                    got = ac[b, tau]
                    qp = core.quotient_parts(got)
                    if qp is not None:
                        phi = conj([qp[0] * c0 == c * qp[1], qp[1] != 0])   # got = c / c0 as a cross-multiplied identity
                    else:
                        phi = got * c0 == c
                    if known and not intended:
                        prove('autocorrelation = time-origin averaged dot product at each lag, normalised to one at lag zero', phi,
                              known=(KF_IRFFT, True))
                    else:
                        prove_isolated('autocorrelation = time-origin averaged dot product at each lag, normalised to one at lag zero', phi,
                                       timeout_ms=120000)
            sample(dict(T=T, P=P, intended_length=bool(intended)))

    kc = (lambda m: True) if (known and not intended) else None
    return symbolic_job(params, body, autocorr_job_replay, in_known_class=kc, timeout_ms=120000)


def autocorr_job_replay(params, inputs):
    import gemdat.utils as gu
    T, P, intended = params['T'], params['P'], params['intended_length']
    V = np.array([[[float(inputs[f'v_{t}_{b}_{i}']) for i in range(3)] for b in range(P)] for t in range(T)])
    if intended:
        return True, 'K-corrected environment: nothing to replay on the real code'
    ac = gu.fft_autocorrelation(V)
    for b in range(P):
        c0 = np.mean([V[t, b] @ V[t, b] for t in range(T)])
        for tau in range(T):
            c = np.mean([V[t, b] @ V[t + tau, b] for t in range(T - tau)])
            if abs(ac[b, tau] - c / c0) > 1e-6:
                return False, f'autocorrelation[{b},{tau}]={ac[b, tau]} != definition {c / c0}; vectors={V.tolist()}'
    return True, 'ok'


REPLAYS = dict(vectors_job=vectors_job_replay, autocorr_job=autocorr_job_replay, ops_job=ops_job_replay)


def jobs(tier, seed):
    js = []
    if tier == 'quick':
        vj = [('cubic5', 3, 'interior'), ('tric', 3, 'faces'), ('cubic5', 2, 'faces')]
        groups = ['1', '-1', '2/m', 'mmm', '4/mmm', 'm-3m']
        ac = [(2, 1), (3, 1), (3, 2)]
    else:
        vj = [(lat, T, cl) for lat in ('cubic5', 'tric', 'hex558', 'mono567b110', 'cubic5_rotz') for T in (3, 4) for cl in ('interior', 'faces')]
        groups = ['1', '-1', '2', 'm', '2/m', '222', 'mm2', 'mmm', '4', '-4', '4/m', '422', '4mm', '-42m', '4/mmm', '23', 'm-3', '432', '-43m', 'm-3m']
        ac = [(2, 1), (3, 1), (3, 2), (4, 1), (4, 2)]
    for lat, T, cl in vj:
        js.append(dict(name=f'vectors_{lat}_T{T}_{cl}', fn='vectors_job', params=dict(lattice=lat, T=T, cluster=cl)))
    for lat, ax in []:   # vector-length jobs (27-image minimum, nlsat): 10 min each and close to the query time-out under load - not registered
        js.append(dict(name=f'vectorlength_{lat}_axis{ax}', fn='vectors_job', params=dict(lattice=lat, T=2, cluster='faces', length=True, axis=ax)))
    for g in groups:
        js.append(dict(name=f'ops_{g.replace("/", "_")}', fn='ops_job', params=dict(group=g)))
    for T, P in ac:
        js.append(dict(name=f'autocorr_T{T}_P{P}', fn='autocorr_job', params=dict(T=T, P=P, intended_length=False)))
        js.append(dict(name=f'autocorr_T{T}_P{P}_intended_length', fn='autocorr_job', params=dict(T=T, P=P, intended_length=True)))
    return js
