"""C09 - free energy is -kT ln(probability) and stays finite.

exec (unmodified): gemdat.volume.Volume.probability / get_free_energy, FreeEnergyVolume.free_energy_graph ->
gemdat.path.free_energy_graph (node selection by the energy threshold).
"""
from __future__ import annotations

from fractions import Fraction as F

import numpy as np

from symgem import core, transc
from symgem.core import assume, conj, disj, event, implies, ite, prove, sample, sym_int, sym_real
from symgem.runner import symbolic_job
from symgem.symnp import Patches, S

PROPERTY = 'C09'
KB = F('8.617333262e-5')   # eV/K, the oracle's own literal (CODATA 2018)
THRESH = 10 ** 7

BOUNDS = {
    'quick': 'density grids of shape (2,1,1), (2,2,1), (3,1,1): voxel densities any reals in [0,1000] (also totals below one) with at least one > 0; '
             'temperature any real in (0, 100000]; the *_after_other_temperature jobs first query the same Volume object at a second, '
             'independent arbitrary temperature',
    'thorough': 'free-energy grids up to 4 voxels, densities in {0} u [1e-6,10^6], temperature in (0, 10^6]; graph builder on grids up to (2,2,2)',
}
OUTSIDE = ['in-place edits of Volume.data between two queries', 'accuracy of libm log/exp (LOG/EXP are uninterpreted with the listed axioms)', 'grids above the bound']
ASSUMPTIONS = [
    'np.log / np.exp: uninterpreted LOG, EXP with ln x <= x-1, EXP(LOG x) = x, strict monotonicity on the arguments that occur, '
    'LOG(1)=0, ln x >= -28 for x >= 1e-12, ln x >= -56 for x >= 1e-24; np.log(0) = -inf, np.nan_to_num(+-inf) = +-largest finite double',
    '"finite" is checked as |value| <= largest finite binary64 (real arithmetic has no overflow)',
    'physical constant k_B[eV/K] read as an exact rational',
    'a voxel density is 0 or at least 1e-6 (ln p bounded below by the LOG axiom used for the finite-range obligation)',
    'composition: fe_* jobs prove the facts about the free-energy grid (visited: in [0,MAXF]; unvisited: = MAXF); graph_* jobs run the '
    'real graph builder on arbitrary grids carrying exactly these facts',
]
STUBS = ['np.log, np.exp, np.nan_to_num (symgem.transc)', 'scipy.constants.physical_constants -> exact rational value']


def z3i(a, b):
    return implies(a, b)


def _volume(gv, counts):
    return gv.Volume(data=counts, lattice=None)


def fe_job(params):
    shape, cmax, tmax = tuple(params['shape']), params['cmax'], params['tmax']
    n = int(np.prod(shape))

    def body():
        import gemdat.path as gp
        import gemdat.volume as gv
        import scipy.constants as sc
        with Patches() as p:
            p.np(gv, gp)
            kb_code = core.rat(sc.physical_constants['Boltzmann constant in eV/K'][0])
            p.set(gv, 'physical_constants', {'Boltzmann constant in eV/K': (kb_code, 'eV K^-1', 0)})
            x = S([sym_real(f'x_{i}', 0, cmax) for i in range(n)]).reshape(shape)   # any non-negative density, not only counts
            T = sym_real('temperature', 0, tmax, lo_strict=True)
            flat = x.ravel().tolist()
            assume(disj([v > 0 for v in flat]))
            for v in flat:   # positive densities are not denormal-small (keeps ln p within the bounded-below axiom)
                assume(disj([v == 0, v >= F(1, 10 ** 6)]))
            total = core.ssum(flat)
            vol = _volume(gv, x)
            try:
                if params.get('history'):
                    # the same Volume object was already asked for its free energy at another temperature (and for its
                    # probabilities): the later answer must not depend on that history
                    T0 = sym_real('temperature_before', 0, tmax, lo_strict=True)
                    vol.get_free_energy(temperature=T0)
                    vol.probability()
                fe = vol.get_free_energy(temperature=T)
            except Exception as e:
                event(f'exception:{type(e).__name__}', detail=str(e)[:200])
                return
            prove('free energy volume type and shape', isinstance(fe, gv.FreeEnergyVolume) and tuple(fe.data.shape) == shape)
            Fd = np.asarray(fe.data, dtype=object).ravel().tolist()
            for v in Fd:
                prove('every voxel value is a finite number (no nan / inf object)', not isinstance(v, transc.SX))
                prove('every voxel value lies in the finite binary64 range', conj([v <= transc.MAXF, v >= -transc.MAXF]))
            # probabilities: the code's quotients must be x_i / sum(x) (checked on numerator and denominator)
            ps = np.asarray(vol.probability(), dtype=object).ravel().tolist()
            for i in range(n):
                qp = core.quotient_parts(ps[i])
                prove('probability is a quotient', qp is not None)
                if qp is None:
                    return
                prove('probability = count / total count', conj([qp[0] == flat[i], qp[1] == total]))
            lgs = [transc.slog_term(pi) for pi in ps]
            prove('k_B[eV/K] used by the code agrees with 8.617333262e-5 within 1e-9', abs(kb_code - KB) <= KB * F(1, 10 ** 9))
            for i in range(n):
                prove('visited voxel: F = -k_B T ln(x / sum x)', implies(flat[i] > 0, Fd[i] == -kb_code * T * lgs[i]))
                prove('visited voxel: free energy is non-negative', implies(flat[i] > 0, Fd[i] >= 0))
                prove('unvisited voxel: finite, prohibitively large (>= path threshold 1e7)',
                      implies(flat[i] == 0, conj([Fd[i] >= THRESH, Fd[i] <= transc.MAXF])))
                for j in range(n):
                    if i != j:
                        prove('a denser voxel never has a higher free energy',
                              implies(conj([flat[i] > flat[j], flat[j] > 0]), Fd[i] <= Fd[j]))
            # exp(-F / k_B T) recovers p on visited voxels and sums to one: EXP(LOG p) = p is an axiom instance,
            # so it remains to show -F/(k_B T) = LOG p (above) and sum of p over visited voxels = 1
            prove('probabilities of visited voxels sum to one', core.ssum([ite(flat[i] > 0, ps[i], 0) for i in range(n)]) == 1)
            sample(dict(shape=list(shape)))

    return symbolic_job(params, body, fe_job_replay, timeout_ms=120000)


def fe_job_replay(params, inputs):
    import math
    import gemdat.volume as gv
    shape = tuple(params['shape'])
    n = int(np.prod(shape))
    x = np.array([float(inputs[f'x_{i}']) for i in range(n)], dtype=float).reshape(shape)
    T = float(inputs['temperature'])
    import warnings
    with warnings.catch_warnings():
        warnings.simplefilter('ignore')
        vol = gv.Volume(data=x, lattice=None)
        if params.get('history'):
            vol.get_free_energy(temperature=float(inputs['temperature_before']))
            vol.probability()
        fe = vol.get_free_energy(temperature=T)
    Fd = np.asarray(fe.data, dtype=float)
    desc = f'counts={x.ravel().tolist()} T={T}'
    if not np.all(np.isfinite(Fd)):
        return False, f'non-finite free energy {Fd.ravel().tolist()}; {desc}'
    tot = x.sum()
    for idx in np.ndindex(shape):
        if x[idx] > 0:
            e = -float(KB) * T * math.log(x[idx] / tot)
            if abs(Fd[idx] - e) > 1e-6 * max(1.0, abs(e)):
                return False, f'F{idx}={Fd[idx]} != -kT ln p = {e}; {desc}'
        elif not Fd[idx] >= THRESH:
            return False, f'unvisited voxel {idx} has F={Fd[idx]} < threshold; {desc}'
    vis = [idx for idx in np.ndindex(shape) if x[idx] > 0]
    for a in vis:
        for b in vis:
            if x[a] > x[b] and Fd[a] > Fd[b] + 1e-12:
                return False, f'denser voxel {a} has higher free energy than {b}; {desc}'
    G = fe.free_energy_graph(max_energy_threshold=float(THRESH), diagonal=False)
    for idx in np.ndindex(shape):
        if (idx in G.nodes) != (x[idx] > 0 and 0 <= Fd[idx] < THRESH):
            return False, f'graph membership of {idx} wrong (F={Fd[idx]}); {desc}'
    return True, 'ok'


def graph_job(params):
    """Second half of the composition: a grid of arbitrary reals f_i that carries exactly the facts fe_job proves about
    the free energy (visited voxel: 0 <= f <= MAXF; unvisited voxel: f = MAXF = nan_to_num(+inf)) is handed to the real
    graph builder with the threshold FreeEnergyVolume.optimal_path uses."""
    shape = tuple(params['shape'])
    n = int(np.prod(shape))

    def body():
        import gemdat.path as gp
        import gemdat.volume as gv
        from symgem.core import sym_bool
        with Patches() as p:
            p.np(gv, gp)
            f = [sym_real(f'f_{i}', 0, transc.MAXF) for i in range(n)]
            u = [sym_bool(f'unvisited_{i}') for i in range(n)]
            for i in range(n):
                assume(implies(u[i], f[i] == transc.MAXF))
            fe = gv.FreeEnergyVolume(data=S(f).reshape(shape), lattice=None)
            G = fe.free_energy_graph(max_energy_threshold=float(THRESH), diagonal=params['diagonal'])
            nodes = set(G.nodes)
            for i, idx in enumerate(np.ndindex(shape)):
                if idx in nodes:
                    prove('graph node is a visited voxel below the threshold', conj([~u[i], f[i] < THRESH, f[i] >= 0]))
                    prove('node carries its free energy', G.nodes[idx]['energy'] == f[i])
                else:
                    prove('voxel left out of the graph is unvisited or at/above the threshold', disj([u[i], f[i] >= THRESH]))
            for a_, b_ in G.edges:
                prove('edges only join nodes', a_ in nodes and b_ in nodes)
            sample(dict(shape=list(shape), nodes=len(nodes)))

    return symbolic_job(params, body, None, timeout_ms=120000)


REPLAYS = dict(fe_job=fe_job_replay)


def jobs(tier, seed):
    if tier == 'quick':
        cfg = [((2, 1, 1), 1000, 100000), ((2, 2, 1), 1000, 100000), ((3, 1, 1), 1000, 100000)]
    else:
        cfg = [((2, 1, 1), 10 ** 6, 10 ** 6), ((2, 2, 1), 10 ** 6, 10 ** 6), ((3, 1, 1), 10 ** 6, 10 ** 6), ((1, 1, 4), 10 ** 5, 10 ** 6)]
    js = [dict(name='fe_' + 'x'.join(map(str, sh)), fn='fe_job', params=dict(shape=list(sh), cmax=c, tmax=t)) for sh, c, t in cfg]
    for sh, c, t in cfg[:1] if tier == 'quick' else cfg[:2]:
        js.append(dict(name='fe_' + 'x'.join(map(str, sh)) + '_after_other_temperature', fn='fe_job',
                       params=dict(shape=list(sh), cmax=c, tmax=t, history=True)))
    gshapes = [(2, 1, 1), (2, 2, 1)] if tier == 'quick' else [(2, 1, 1), (2, 2, 1), (3, 1, 1), (2, 2, 2)]
    for sh in gshapes:
        js.append(dict(name='graph_' + 'x'.join(map(str, sh)), fn='graph_job', params=dict(shape=list(sh), diagonal=False)))
    return js
