"""C03 - transition events are a faithful, complete change-log; states_prev / states_next.

exec (unmodified, imported from /repo/src at run time):
  gemdat.transitions._calculate_transition_events, gemdat.utils.ffill / bfill,
  Transitions.states_prev / states_next (the undecorated functions, ``__wrapped__``).
"""
from __future__ import annotations

import itertools

import numpy as np

from symgem import core
from symgem.core import assume, conj, disj, event, implies, ite, prove, sample, sym_int
from symgem.runner import open_findings, symbolic_job
from symgem.symnp import Patches, S

PROPERTY = 'C03'
NOSITE = -1
N_SITES = 3

BOUNDS = {
    'quick': 'events: (T,A) in {(2..5,1),(2..3,2)}; fills: T<=8, A<=2; site ids any integer in [-1,3); '
             'every history of each shape is covered symbolically (contents symbolic, shape concrete)',
    'thorough': 'events: (T,A) in {(2..7,1),(2..4,2),(2..3,3)}; fills: T<=12, A<=3; site ids in [-1,3)',
}
OUTSIDE = ['frame counts / atom counts above the bound', 'more than 3 distinct sites (ids only enter through ==)']
ASSUMPTIONS = [
    'inner state of an atom is NOSITE or equal to its outer state (what _calculate_atom_states produces; C02)',
    'at least one outer site change somewhere in the history (precondition stated by the property)',
    'numpy/pandas structural operations (roll, vstack, unique on concrete ints, DataFrame) are trusted as executed',
]
STUBS = ['np.where / np.maximum.accumulate / fancy indexing on symbolic elements: merged If-terms (symgem.symnp), '
         'validated differentially by selftest and by concrete replay of path models']


def _arrays(T, A):
    s = S([[sym_int(f's_{t}_{a}', NOSITE, N_SITES - 1) for a in range(A)] for t in range(T)])
    i = S([[sym_int(f'i_{t}_{a}', NOSITE, N_SITES - 1) for a in range(A)] for t in range(T)])
    return s, i


def _concrete(inputs, T, A):
    s = np.array([[int(inputs[f's_{t}_{a}']) for a in range(A)] for t in range(T)], dtype=int)
    i = np.array([[int(inputs.get(f'i_{t}_{a}', -1)) for a in range(A)] for t in range(T)], dtype=int)
    return s, i


# --------------------------------------------------------------------------- events


def events_job(params):
    import gemdat.transitions as tr
    T, A = params['T'], params['A']
    findings = open_findings(PROPERTY)

    def body():
        s, i = _arrays(T, A)
        for t in range(T):
            for a in range(A):
                assume((i[t, a] == NOSITE) | (i[t, a] == s[t, a]))
        assume(disj([s[t, a] != s[t + 1, a] for t in range(T - 1) for a in range(A)]))
        try:
            ev = tr._calculate_transition_events(atom_sites=s, atom_inner_sites=i)
        except Exception as e:  # no exception is documented for a history with a change
            event(f'exception:{type(e).__name__}', detail=str(e)[:100])
            return
        cols = ['atom index', 'start site', 'destination site', 'start inner site',
                'destination inner site', 'time']
        prove('columns', list(ev.columns) == cols)
        rows = {}
        dup = False
        for r in ev[cols].values.tolist():
            a, t = r[0], r[5]
            if core.is_sym(a) or core.is_sym(t):
                a, t = int(a), int(t)
            key = (int(a), int(t))
            dup = dup or key in rows
            rows[key] = r
        prove('no duplicate rows', not dup)
        for (a, t) in rows:
            prove('row refers to a frame pair inside the history', 0 <= t < T - 1 and 0 <= a < A)
        for a in range(A):
            for t in range(T - 1):
                oc = s[t, a] != s[t + 1, a]
                ic = i[t, a] != i[t + 1, a]
                if (a, t) in rows:
                    r = rows[(a, t)]
                    prove('row corresponds to a real change', oc | ic)
                    prove('row carries states before/after',
                          conj([r[1] == s[t, a], r[2] == s[t + 1, a], r[3] == i[t, a], r[4] == i[t + 1, a]]))
                else:
                    prove('every outer change has a row', ~oc if core.is_sym(oc) else not oc)
        # replaying the rows from the first-frame state reconstructs both histories
        for a in range(A):
            cur_s, cur_i = s[0, a], i[0, a]
            for t in range(T - 1):
                if (a, t) in rows:
                    cur_s, cur_i = rows[(a, t)][2], rows[(a, t)][4]
                prove('replay reconstructs site history', cur_s == s[t + 1, a])
                prove('replay reconstructs inner-site history', cur_i == i[t + 1, a])
        sample(dict(T=T, A=A, rows=len(rows)))

    with Patches() as p:
        return symbolic_job(params, body, events_job_replay)


def events_job_replay(params, inputs):
    import gemdat.transitions as tr
    T, A = params['T'], params['A']
    s, i = _concrete(inputs, T, A)
    try:
        ev = tr._calculate_transition_events(atom_sites=s, atom_inner_sites=i)
    except Exception as e:
        return False, f'{type(e).__name__}: {e} for states={s.T.tolist()} inner={i.T.tolist()}'
    got = sorted(tuple(int(v) for v in r) for r in ev.values.tolist())
    exp_outer = {(a, t) for a in range(A) for t in range(T - 1) if s[t, a] != s[t + 1, a]}
    exp_any = {(a, t) for a in range(A) for t in range(T - 1)
               if s[t, a] != s[t + 1, a] or i[t, a] != i[t + 1, a]}
    keys = [(r[0], r[5]) for r in got]
    if len(set(keys)) != len(keys):
        return False, f'duplicate rows {got}'
    if not exp_outer <= set(keys):
        return False, f'missing rows for outer changes {sorted(exp_outer - set(keys))}; states={s.T.tolist()}'
    if not set(keys) <= exp_any:
        return False, f'rows without a change {sorted(set(keys) - exp_any)}; states={s.T.tolist()} inner={i.T.tolist()}'
    for r in got:
        a, t = r[0], r[5]
        if (r[1], r[2], r[3], r[4]) != (s[t, a], s[t + 1, a], i[t, a], i[t + 1, a]):
            return False, f'row {r} does not carry the states at t, t+1'
    rs, ri = s.copy(), i.copy()
    for a in range(A):
        for t in range(T - 1):
            rs[t + 1, a], ri[t + 1, a] = rs[t, a], ri[t, a]
            for r in got:
                if (r[0], r[5]) == (a, t):
                    rs[t + 1, a], ri[t + 1, a] = r[2], r[4]
    if not (rs == s).all():
        return False, f'replay of rows does not reconstruct site history; states={s.T.tolist()} rows={got}'
    if not (ri == i).all():
        return False, f'replay of rows does not reconstruct inner-site history; inner={i.T.tolist()} states={s.T.tolist()} rows={got}'
    return True, 'ok'


# --------------------------------------------------------------------------- prev / next


class _Obj:
    pass


def fills_job(params):
    import gemdat.transitions as tr
    import gemdat.utils as gu
    T, A = params['T'], params['A']

    def body():
        s = S([[sym_int(f's_{t}_{a}', NOSITE, N_SITES - 1) for a in range(A)] for t in range(T)])
        o = _Obj()
        o.states = s
        prev = tr.Transitions.states_prev.__wrapped__(o)
        nxt = tr.Transitions.states_next.__wrapped__(o)
        prove('shape', tuple(prev.shape) == (T, A) and tuple(nxt.shape) == (T, A))
        for a in range(A):
            for t in range(T):
                # most recent occupied site at or before t
                cases = []
                for u in range(t, -1, -1):
                    later_empty = conj([s[v, a] == NOSITE for v in range(u + 1, t + 1)])
                    cases.append(implies(conj([s[u, a] != NOSITE, later_empty]), prev[t, a] == s[u, a]))
                cases.append(implies(conj([s[v, a] == NOSITE for v in range(0, t + 1)]), prev[t, a] == NOSITE))
                prove('states_prev = most recent site', conj(cases))
                cases = []
                for u in range(t, T):
                    before_empty = conj([s[v, a] == NOSITE for v in range(t, u)])
                    cases.append(implies(conj([s[u, a] != NOSITE, before_empty]), nxt[t, a] == s[u, a]))
                cases.append(implies(conj([s[v, a] == NOSITE for v in range(t, T)]), nxt[t, a] == NOSITE))
                prove('states_next = next site', conj(cases))
        sample(dict(T=T, A=A))

    with Patches() as p:
        p.np(gu, tr)
        return symbolic_job(params, body, fills_job_replay)


def fills_job_replay(params, inputs):
    import gemdat.transitions as tr
    T, A = params['T'], params['A']
    s, _ = _concrete(inputs, T, A)
    o = _Obj()
    o.states = s
    prev = tr.Transitions.states_prev.__wrapped__(o)
    nxt = tr.Transitions.states_next.__wrapped__(o)
    for a in range(A):
        for t in range(T):
            p = [s[u, a] for u in range(t, -1, -1) if s[u, a] != NOSITE]
            n = [s[u, a] for u in range(t, T) if s[u, a] != NOSITE]
            if prev[t, a] != (p[0] if p else NOSITE):
                return False, f'states_prev[{t},{a}]={prev[t, a]} for states={s[:, a].tolist()}'
            if nxt[t, a] != (n[0] if n else NOSITE):
                return False, f'states_next[{t},{a}]={nxt[t, a]} for states={s[:, a].tolist()}'
    return True, 'ok'


REPLAYS = dict(events_job=events_job_replay, fills_job=fills_job_replay)


def jobs(tier, seed):
    if tier == 'quick':
        ev = [(T, 1) for T in range(2, 6)] + [(T, 2) for T in range(2, 4)]
        fl = [(8, 1), (4, 2), (2, 1)]
    else:
        ev = [(T, 1) for T in range(2, 8)] + [(T, 2) for T in range(2, 5)] + [(T, 3) for T in range(2, 4)]
        fl = [(12, 1), (8, 2), (5, 3), (1, 1), (2, 2)]
    js = [dict(name=f'events_T{T}_A{A}', fn='events_job', params=dict(T=T, A=A)) for T, A in ev]
    js += [dict(name=f'fills_T{T}_A{A}', fn='fills_job', params=dict(T=T, A=A)) for T, A in fl]
    return js
