"""C19 - time partitioning conserves states and events.

exec (unmodified): gemdat.transitions._split_transitions_events, Transitions.split,
Trajectory.split, Jumps.split (on top of the C03/C04 pipeline).
"""
from __future__ import annotations

import numpy as np
import pandas as pd

from symgem import core
from symgem.core import assume, conj, disj, event, prove, sample, sym_int
from symgem.runner import symbolic_job
from symgem.symnp import Patches, S

PROPERTY = 'C19'
NOSITE = -1
N_SITES = 3

BOUNDS = {
    'quick': 'event tables: (T, n_parts, k) with T in {4,7,10}, n_parts<=4, k<=4 rows, times any integers in [0,T-2]; '
             'whole pipeline (states -> events -> split -> jumps per part): (T,A,n_parts) in {(4,1,2),(5,1,2),(5,1,3),(4,2,2)}; '
             'Trajectory.split for every (T<=12, n_parts<=6, equal_parts)',
    'thorough': 'event tables: T<=12, n_parts<=6, k<=5; pipeline: T<=6 (A=1) n_parts<=3, (4,2,2), (5,2,2); Trajectory.split T<=16, n_parts<=8',
}
OUTSIDE = ['Jumps.rates()/activation_energies() numeric part (attempt frequency -> periodogram); only the per-part jump sets are covered',
           'T, n_parts, k above the bound']
ASSUMPTIONS = [
    'event times lie in [0, T-2] (what _calculate_transition_events emits; C03)',
    "ValueError('Not enough transitions per part ...') when k < n_parts and ValueError('No jumps found') for a part without "
    'jumps are documented outcomes (no counts exist then)',
    'Trajectory.split is structural: for each concrete (T, n_parts) the frame ranges are concrete; coordinates carry the frame index',
]
STUBS = []

COLS = ['atom index', 'start site', 'destination site', 'start inner site', 'destination inner site', 'time']


def _traj(T, A=1):
    from gemdat.trajectory import Trajectory
    coords = np.zeros((T, A, 3))
    coords[:, :, 0] = (np.arange(T)[:, None] + 0.5) / (T + 1)
    return Trajectory(species=['Li'] * A, coords=coords, lattice=np.eye(3) * 5.0, time_step=1e-15,
                      metadata={'temperature': 300})


# --------------------------------------------------------------------------- event table split


def events_job(params):
    import gemdat.transitions as tr
    T, n_parts, k = params['T'], params['n_parts'], params['k']

    def body():
        rows = []
        for r in range(k):
            rows.append([sym_int(f'atom_{r}', 0, 3), sym_int(f'a_{r}', -1, 2), sym_int(f'b_{r}', -1, 2),
                         sym_int(f'c_{r}', -1, 2), sym_int(f'd_{r}', -1, 2), sym_int(f'time_{r}', 0, T - 2), r])
        df = pd.DataFrame(data=S(rows), columns=COLS + ['id'])
        try:
            parts = tr._split_transitions_events(df, T, n_parts)
        except ValueError as e:
            prove("'Not enough transitions' only when k < n_parts", 'Not enough transitions' in str(e) and k < n_parts)
            return
        except Exception as e:
            event(f'exception:{type(e).__name__}', detail=str(e)[:200])
            return
        prove('n_parts parts', len(parts) == n_parts)
        # implementation-agnostic oracle: each non-empty part p has one base b_p (= original - re-based time of
        # all its events), 0 <= b_p, offsets >= 0, bases non-decreasing, and every event of an earlier part lies
        # strictly before the base of every later non-empty part (chronological, inside its own part)
        seen = {}
        bases = []
        for p, part in enumerate(parts):
            base = None
            members = []
            for rec in part[COLS + ['id']].values.tolist():
                rid = int(rec[6])
                prove('event appears in one part only', rid not in seen)
                seen[rid] = p
                t0 = rows[rid][5]
                members.append(t0)
                if base is None:
                    base = t0 - rec[5]
                    prove('part base is a frame of the source', conj([base >= 0, base <= T]))
                else:
                    prove('all events of a part are re-based by the same offset', t0 - rec[5] == base)
                prove('time re-based to a non-negative offset inside the part', rec[5] >= 0)
                prove('other columns unchanged', conj([rec[c] == rows[rid][c] for c in range(5)]))
            if base is not None:
                for (b_prev, mem_prev) in bases:
                    prove('parts are in chronological order', b_prev <= base)
                    prove('an event lies inside its own part (before the next part starts)',
                          conj([m < base for m in mem_prev]))
                bases.append((base, members))
        prove('every event is in some part', len(seen) == k)
        # the input table itself is not modified
        prove('source table untouched', conj([df['time'].tolist()[r] == rows[r][5] for r in range(k)]))
        sample(dict(T=T, n_parts=n_parts, k=k))

    return symbolic_job(params, body, events_job_replay)


def events_job_replay(params, inputs):
    import gemdat.transitions as tr
    T, n_parts, k = params['T'], params['n_parts'], params['k']
    rows = [[int(inputs[f'atom_{r}']), int(inputs[f'a_{r}']), int(inputs[f'b_{r}']), int(inputs[f'c_{r}']),
             int(inputs[f'd_{r}']), int(inputs[f'time_{r}']), r] for r in range(k)]
    df = pd.DataFrame(data=np.array(rows, dtype=int).reshape(k, 7), columns=COLS + ['id'])
    try:
        parts = tr._split_transitions_events(df, T, n_parts)
    except ValueError as e:
        ok = 'Not enough transitions' in str(e) and k < n_parts
        return ok, f'ValueError {e}'
    if len(parts) != n_parts:
        return False, f'{len(parts)} parts'
    got = []
    prev = []  # (base, max original time) of earlier non-empty parts
    for p, part in enumerate(parts):
        base, tmax = None, None
        for rec in part[COLS + ['id']].values.tolist():
            rid = int(rec[6])
            t0 = rows[rid][5]
            if rec[5] < 0:
                return False, f'event {rows[rid]} re-based to negative time {rec[5]} in part {p}'
            if base is None:
                base = t0 - rec[5]
            elif t0 - rec[5] != base:
                return False, f'part {p}: events re-based by different offsets ({base} vs {t0 - rec[5]})'
            tmax = t0 if tmax is None else max(tmax, t0)
            if [int(v) for v in rec[:5]] != rows[rid][:5]:
                return False, f'event {rows[rid]} altered to {rec}'
            got.append(rid)
        if base is not None:
            if not 0 <= base <= T:
                return False, f'part {p} base {base} outside the source'
            for (b0, m0) in prev:
                if b0 > base or m0 >= base:
                    return False, f'parts not chronological / event outside its part: part base {base}, earlier part base {b0} max time {m0}'
            prev.append((base, tmax))
    if sorted(got) != list(range(k)):
        return False, f'events over parts {sorted(got)} != every event exactly once; times={[r[5] for r in rows]} T={T} n_parts={n_parts}'
    return True, 'ok'


# --------------------------------------------------------------------------- whole pipeline


def _jump_rows(jm, tobj, m=0):
    try:
        df = jm._generic_transitions_to_jumps(tobj, minimal_residence=m)
    except ValueError as e:
        if 'No jumps found' in str(e):
            return None
        raise
    return [(r['atom index'], r['start site'], r['destination site'], r['start time'], r['stop time'])
            for _, r in df.iterrows()]


def _part_bases(ev, parts):
    """Base (absolute time of re-based time 0) of every part, from the 'id' column; 0 for a part without
    events; None if the events of a part disagree or an offset is negative (times are concrete here)."""
    orig = {int(r['id']): int(r['time']) for _, r in ev.iterrows()}
    bases = []
    for part in parts:
        b = None
        for _, r in part.events.iterrows():
            if int(r['time']) < 0:
                return None
            bb = orig[int(r['id'])] - int(r['time'])
            if b is not None and bb != b:
                return None
            b = bb
        bases.append(0 if b is None else b)
    return bases


def pipeline_job(params):
    import gemdat.jumps as jm
    import gemdat.transitions as tr
    from pymatgen.core import Structure
    T, A, n_parts = params['T'], params['A'], params['n_parts']
    m = params.get('m', 0)   # minimal residence (with symbolic inner states when m > 0)

    def body():
        s = S([[sym_int(f's_{t}_{a}', NOSITE, N_SITES - 1) for a in range(A)] for t in range(T)])
        assume(disj([s[t, a] != s[t + 1, a] for t in range(T - 1) for a in range(A)]))
        if m > 0:
            inn = S([[sym_int(f'i_{t}_{a}', NOSITE, N_SITES - 1) for a in range(A)] for t in range(T)])
            for t_ in range(T):
                for a_ in range(A):
                    assume((inn[t_, a_] == NOSITE) | (inn[t_, a_] == s[t_, a_]))
        else:
            inn = s
        try:
            ev = tr._calculate_transition_events(atom_sites=s, atom_inner_sites=inn)
        except Exception as e:
            event(f'events exception:{type(e).__name__}', detail=str(e)[:100])
            return
        ev['id'] = list(range(len(ev)))  # extra column to identify events in the parts (ignored by GEMDAT)
        traj = _traj(T, A)
        sites = Structure(np.eye(3) * 5.0, ['Li'] * N_SITES, [[0.1 * i, 0, 0] for i in range(N_SITES)])
        t = tr.Transitions(trajectory=traj, diff_trajectory=traj, sites=sites, events=ev, states=s, inner_states=inn)
        try:
            parts = t.split(n_parts)
        except ValueError as e:
            prove("'Not enough transitions' only when fewer events than parts",
                  'Not enough transitions' in str(e) and len(ev) < n_parts)
            return
        except Exception as e:
            event(f'split exception:{type(e).__name__}', detail=str(e)[:100])
            return
        prove('n_parts parts', len(parts) == n_parts)
        cat = np.concatenate([np.asarray(p.states) for p in parts], axis=0)
        prove('state parts concatenate to the original (shape)', cat.shape == (T, A))
        if cat.shape == (T, A):
            prove('state parts concatenate to the original',
                  conj([cat[tt, a] == s[tt, a] for tt in range(T) for a in range(A)]))
        prove('all events kept, each once', sorted(int(i) for p in parts for i in p.events['id'].tolist()) == list(range(len(ev))))
        whole = _jump_rows(jm, t, m)
        part_rows = None
        if m > 0:
            # the public route: Jumps(...).split(n) must classify the parts with the same settings as the whole
            try:
                jparts = jm.Jumps(t, minimal_residence=m).split(n_parts)
                part_rows = [[(r['atom index'], r['start site'], r['destination site'], r['start time'], r['stop time'])
                              for _, r in jp.data.iterrows()] for jp in jparts]
            except ValueError as e:
                if 'No jumps found' in str(e):
                    return
                raise
        # base of a part = original minus re-based time of its first event (0 for a part without events)
        bins = _part_bases(ev, parts)
        prove('all events of a part are re-based by the same non-negative offset', bins is not None)
        if bins is None:
            return
        total = 0
        try:
            for p, part in enumerate(parts):
                rows = _jump_rows(jm, part) if part_rows is None else part_rows[p]
                if rows is None:
                    continue
                total += len(rows)
                for (a, o, d, t1, t2) in rows:
                    a, t1, t2 = int(a), int(t1) + bins[p], int(t2) + bins[p]
                    match = [w for w in (whole or []) if (int(w[0]), int(w[3]), int(w[4])) == (a, t1, t2)]
                    prove('a jump of a part is a jump of the whole (atom, absolute start/stop time)', len(match) == 1)
                    if match:
                        prove('... with the same origin and destination', conj([o == match[0][1], d == match[0][2]]))
        except Exception as e:
            event(f'jumps exception:{type(e).__name__}', detail=str(e)[:100])
            return
        prove('jump counts of parts never add up to more than the whole', total <= (len(whole) if whole else 0))
        sample(dict(T=T, A=A, n_parts=n_parts, events=len(ev), jumps=len(whole or [])))

    return symbolic_job(params, body, pipeline_job_replay)


def pipeline_job_replay(params, inputs):
    import gemdat.jumps as jm
    import gemdat.transitions as tr
    from pymatgen.core import Structure
    T, A, n_parts = params['T'], params['A'], params['n_parts']
    m = params.get('m', 0)
    s = np.array([[int(inputs[f's_{t}_{a}']) for a in range(A)] for t in range(T)], dtype=int)
    inn = s if m == 0 else np.array([[int(inputs.get(f'i_{t}_{a}', -1)) for a in range(A)] for t in range(T)], dtype=int)
    desc = f'states={s.T.tolist()} inner={inn.T.tolist()} n_parts={n_parts} minimal_residence={m}'
    ev = tr._calculate_transition_events(atom_sites=s, atom_inner_sites=inn)
    ev['id'] = list(range(len(ev)))
    traj = _traj(T, A)
    sites = Structure(np.eye(3) * 5.0, ['Li'] * N_SITES, [[0.1 * i, 0, 0] for i in range(N_SITES)])
    t = tr.Transitions(trajectory=traj, diff_trajectory=traj, sites=sites, events=ev, states=s, inner_states=inn)
    try:
        parts = t.split(n_parts)
    except ValueError as e:
        return ('Not enough transitions' in str(e) and len(ev) < n_parts), f'ValueError {e}; {desc}'
    if len(parts) != n_parts:
        return False, f'{len(parts)} parts; {desc}'
    cat = np.concatenate([p.states for p in parts], axis=0)
    if cat.shape != s.shape or not (cat == s).all():
        return False, f'state parts do not concatenate to the original; {desc}'
    edges = _part_bases(ev, parts)
    if edges is None:
        return False, f'events of a part are not re-based by one common non-negative offset; {desc}'
    orig = sorted(tuple(int(v) for v in r) for r in ev[COLS].values.tolist())
    got = sorted(tuple(int(v) for v in r[:5]) + (int(r[5]) + edges[p],) for p, part in enumerate(parts)
                 for r in part.events[COLS].values.tolist())
    if got != orig:
        return False, f'events of the parts (absolute time) {got} != original {orig}; {desc}'
    ne = [e for e, part in zip(edges, parts) if len(part.events)]
    if ne != sorted(ne):
        return False, f'parts not in chronological order (bases {edges}); {desc}'

    def jr(x):
        r = _jump_rows(jm, x, m)
        return [] if r is None else [tuple(int(v) for v in w) for w in r]
    whole = jr(t)
    tot = 0
    if m > 0:
        try:
            jparts = jm.Jumps(t, minimal_residence=m).split(n_parts)
            part_lists = [[tuple(int(v) for v in r) for r in jp.data[['atom index', 'start site', 'destination site', 'start time', 'stop time']].values.tolist()]
                          for jp in jparts]
        except ValueError:
            return True, 'documented ValueError (no jumps in the whole or in a part)'
    else:
        part_lists = [jr(part) for part in parts]
    for p, part in enumerate(parts):
        for (a, o, d, t1, t2) in part_lists[p]:
            tot += 1
            if (a, o, d, t1 + edges[p], t2 + edges[p]) not in whole:
                return False, f'part {p} jump {(a, o, d, t1, t2)} is not a jump of the whole {whole}; {desc}'
    if tot > len(whole):
        return False, f'parts have {tot} jumps, whole {len(whole)}; {desc}'
    return True, 'ok'


# --------------------------------------------------------------------------- Trajectory.split


KF_SPLIT = 'C19-split-more-parts-than-frames'


def _check_parts(traj, parts, T, n_parts, eq):
    """Concrete structural oracle shared by the symbolic body and the replay. Returns None or a message."""
    if len(parts) != n_parts:
        return f'{len(parts)} parts instead of {n_parts}'
    prev_end, lens = 0, []
    for part in parts:
        fr = [int(round(float(x) * (T + 1) - 0.5)) for x in part.positions[:, 0, 0]]
        lens.append(len(fr))
        if fr != list(range(fr[0], fr[0] + len(fr))):
            return f'part frames {fr} are not a contiguous range'
        if fr[0] < prev_end or (not eq and fr[0] != prev_end):
            return f'part starts at frame {fr[0]} after previous end {prev_end} (overlap / gap)'
        prev_end = fr[-1] + 1
        if part.metadata != traj.metadata or part.time_step != traj.time_step or list(part.species) != list(traj.species):
            return 'metadata / time step / species not preserved'
    if prev_end > T:
        return 'parts exceed the source'
    if eq and len(set(lens)) != 1:
        return f'equal_parts lengths {lens}'
    return None


def trajsplit_job(params):
    """Structural: (T, n_parts, equal_parts) are shape parameters, concretised by forking; the frame index is
    carried by the x coordinate so the source frame of every part frame can be read off."""
    from symgem.core import sym_bool
    from symgem.runner import open_findings
    Tmax, Pmax = params['Tmax'], params['Pmax']
    known = KF_SPLIT in open_findings(PROPERTY)

    def body():
        Ts, ns, eqs = sym_int('T', 2, Tmax), sym_int('n_parts', 1, Pmax), sym_bool('equal_parts')
        K = ns > Ts - 1
        if not known:
            assume(~K)
        T, n_parts, eq = int(Ts), int(ns), bool(eqs)
        traj = _traj(T, 1)
        try:
            parts = traj.split(n_parts, equal_parts=eq)
        except Exception as e:
            event(f'exception:{type(e).__name__}', detail=str(e)[:100], known=(KF_SPLIT, K) if known else None)
            return
        msg = _check_parts(traj, parts, T, n_parts, eq)
        prove('trajectory parts: contiguous, ordered, non-overlapping frame ranges of the source; equal when requested',
              msg is None, detail=msg)
        sample(dict(T=T, n_parts=n_parts, equal_parts=eq, lengths=[len(p) for p in parts]))

    return symbolic_job(params, body, trajsplit_job_replay,
                        in_known_class=(lambda m: m['n_parts'] > m['T'] - 1) if known else None, validate=6)


def trajsplit_job_replay(params, inputs):
    T, n_parts, eq = int(inputs['T']), int(inputs['n_parts']), bool(inputs['equal_parts'])
    traj = _traj(T, 1)
    try:
        parts = traj.split(n_parts, equal_parts=eq)
    except Exception as e:
        return False, f'Trajectory.split(n_parts={n_parts}, equal_parts={eq}) on {T} frames raised {type(e).__name__}: {e}'
    msg = _check_parts(traj, parts, T, n_parts, eq)
    return msg is None, msg or 'ok'


REPLAYS = dict(events_job=events_job_replay, pipeline_job=pipeline_job_replay, trajsplit_job=trajsplit_job_replay)


def jobs(tier, seed):
    js = []
    if tier == 'quick':
        ev = [(T, n, k) for T in (4, 7, 10) for n in (1, 2, 3, 4) for k in (1, 2, 4) if k >= n or k == 1]
        pl = [(4, 1, 2), (5, 1, 2), (5, 1, 3), (4, 2, 2)]
        ts = (12, 6)
    else:
        ev = [(T, n, k) for T in (3, 4, 5, 7, 10, 11, 12) for n in range(1, 7) for k in (1, 3, 5) if k >= n or k == 1]
        pl = [(T, 1, n) for T in (4, 5, 6) for n in (1, 2, 3)] + [(4, 2, 2), (5, 2, 2)]
        ts = (16, 8)
    for T, n, k in ev:
        js.append(dict(name=f'events_T{T}_p{n}_k{k}', fn='events_job', params=dict(T=T, n_parts=n, k=k)))
    for T, A, n in pl:
        js.append(dict(name=f'pipeline_T{T}_A{A}_p{n}', fn='pipeline_job', params=dict(T=T, A=A, n_parts=n)))
    for T, A, n, m in ([(5, 1, 2, 3), (4, 1, 2, 1)] if tier == 'quick' else [(5, 1, 2, 2), (5, 1, 2, 3), (6, 1, 2, 3), (6, 1, 3, 2)]):
        js.append(dict(name=f'pipeline_residence_T{T}_A{A}_p{n}_m{m}', fn='pipeline_job', params=dict(T=T, A=A, n_parts=n, m=m)))
    js.append(dict(name='trajectory_split', fn='trajsplit_job', params=dict(Tmax=ts[0], Pmax=ts[1])))
    return js
