"""C13 - drift correction removes exactly the reference-frame motion.

exec (unmodified): gemdat.trajectory.Trajectory.drift / apply_drift_correction / filter /
positions / displacements (+ pymatgen to_positions / to_displacements, np proxied).
"""
from __future__ import annotations

from fractions import Fraction as F

import numpy as np

from symgem import core, pool
from symgem.core import assume, conj, event, prove, prove_isolated, sample, sfloor, sym_real
from symgem.runner import symbolic_job
from symgem.symnp import Patches, S

PROPERTY = 'C13'

BOUNDS = {
    'quick': 'T in {2,3}, 4 atoms (Si, Si, S, Li): per-step displacements any reals strictly inside (-1/2,1/2), base positions any reals '
             'in [0,1), rigid drift steps any reals in (-1/4,1/4); reference selections: fixed as str/list, floating as str/list, none; '
             'species as Species, as Species with oxidation states (Li+, S2-, Si4+) and as Element objects',
    'thorough': 'T in {2,3,4}; additionally 2 pool lattices and 5 atoms (two floating)',
}
OUTSIDE = ['floating-point rounding', 'trajectories whose raw or corrected steps reach the half cell (minimum image ambiguous)']
ASSUMPTIONS = [
    'input given in displacement form (symbolic minimum-image steps d[t] and base positions); that GEMDAT computes exactly these '
    'steps from wrapped positions is the C01 lemma, and it is re-proved here where filter() converts to positions and back',
    'per-step displacements before/after adding the rigid drift and after correction stay strictly inside the half cell',
    'REAL mode: floats read as reals',
]
STUBS = ['np.mod / np.around on symbolic elements (symgem.symnp)']

SPECIES = ['Si', 'Si', 'S', 'Li']
REF = [0, 1]          # the atoms named by 'Si'
OTHER_FIXED = [0, 1, 2]  # everything that is not 'Li'


def _mk(gt, kind, d, b, M):
    from pymatgen.core import Element, Species
    OX = {'Li': 1, 'S': -2, 'Si': 4}
    mk = {'Species': Species, 'Element': Element, 'SpeciesOx': lambda s: Species(s, OX[s])}[kind]   # SpeciesOx: 'Li+', 'S2-', 'Si4+'
    return gt.Trajectory(species=[mk(s) for s in SPECIES], coords=d, lattice=M, time_step=1e-15,
                         metadata={'temperature': 300, 'tag': 'x'}, coords_are_displacement=True, base_positions=b)


def _sel_kwargs(sel):
    return {
        'fixed_str': dict(fixed_species='Si'), 'fixed_list': dict(fixed_species=['Si']),
        'fixed_all_other': dict(fixed_species=['Si', 'S']),
        'floating_str': dict(floating_species='Li'), 'floating_list': dict(floating_species=['Li']),
        'floating_Si_str': dict(floating_species='Si'), 'floating_Si_list': dict(floating_species=['Si']),
        'none': dict(),
    }[sel]


def _ref_atoms(sel):
    return {'fixed_str': REF, 'fixed_list': REF, 'fixed_all_other': OTHER_FIXED, 'floating_str': OTHER_FIXED,
            'floating_list': OTHER_FIXED, 'none': [0, 1, 2, 3], 'floating_Si_str': [2, 3], 'floating_Si_list': [2, 3]}[sel]


def _lemma_recompute(gt, kind, E, b, M, bounds):
    """Lemma L: a displacement-form trajectory (steps E strictly inside the half cell) that is converted to wrapped
    positions and back yields exactly E again.  Proved entry by entry in isolation; returns the facts per component."""
    probe = _mk(gt, kind, E.copy(), b.copy(), M)
    probe.positions          # displacement form -> wrapped positions (base + cumsum, mod 1)
    R = probe.displacements  # -> minimum-image steps again
    facts = {0: [], 1: [], 2: []}
    for idx in np.ndindex(R.shape):
        fact = R[idx] == E[idx]
        if fact is True:
            continue
        given = [bounds[(t, idx[1], idx[2])] for t in range(1, idx[0] + 1) if (t, idx[1], idx[2]) in bounds]
        prove_isolated('lemma: steps strictly inside the half cell survive the positions round trip', fact, given=given,
                       timeout_ms=120000)
        facts[idx[2]].append(fact)
    return facts


def drift_job(params):
    T, sel, kind, lat = params['T'], params['sel'], params['species_kind'], params['lattice']
    M = pool.lattice_matrices()[lat]
    A = len(SPECIES)
    ref = _ref_atoms(sel)
    kw = _sel_kwargs(sel)

    def body():
        import gemdat.trajectory as gt
        import pymatgen.core.trajectory as pt
        with Patches() as p:
            p.np(gt, pt)
            lo, hi = F(-1, 2), F(1, 2)
            d = S([[[0 if t == 0 else sym_real(f'd_{t}_{a}_{c}', lo, hi, lo_strict=True, hi_strict=True) for c in range(3)]
                    for a in range(A)] for t in range(T)])
            b = S([[sym_real(f'b_{a}_{c}', 0, 1, hi_strict=True) for c in range(3)] for a in range(A)])
            sig = S([[0 if t == 0 else sym_real(f'sig_{t}_{c}', F(-1, 4), F(1, 4), lo_strict=True, hi_strict=True) for c in range(3)]
                     for t in range(T)])
            L = _lemma_recompute(gt, kind, d, b, M, {})
            traj = _mk(gt, kind, d.copy(), b.copy(), M)
            try:
                drift = traj.drift(**kw)
                res = traj.apply_drift_correction(**kw)
            except Exception as e:
                event(f'exception:{type(e).__name__}', detail=str(e)[:200])
                return
            prove('drift shape (frames, 1, 3)', tuple(drift.shape) == (T, 1, 3))
            mean_ref = [[core.ssum([d[t, a, c] for a in ref]) / len(ref) for c in range(3)] for t in range(T)]
            for t in range(T):
                for c in range(3):
                    prove_isolated('drift = mean displacement of the reference atoms', drift[t, 0, c] == mean_ref[t][c],
                                   given=L[c], timeout_ms=60000)
            # corrected steps stay strictly inside the half cell (assumption of the claim)
            Ebounds = {}
            for t in range(1, T):
                for a in range(A):
                    for c in range(3):
                        e = d[t, a, c] - mean_ref[t][c]
                        Ebounds[(t, a, c)] = conj([e > lo, e < hi])
                        assume(Ebounds[(t, a, c)])
            D = res.displacements
            prove('result has the same shape', tuple(D.shape) == (T, A, 3))
            E = d.copy()
            for t in range(T):
                for c in range(3):
                    for a in range(A):
                        E[t, a, c] = d[t, a, c] - mean_ref[t][c]
                        prove_isolated('corrected step = step - reference mean', D[t, a, c] == E[t, a, c], given=L[c], timeout_ms=60000)
                    prove_isolated('mean displacement of the reference species is zero in every frame of the result',
                                   core.ssum([E[t, a, c] for a in ref]) == 0)
            # the corrected trajectory is a new object: the source still reports its own steps
            Dsrc = traj.displacements
            for idx in np.ndindex(D.shape):
                prove_isolated('the source trajectory is not altered by the correction (its steps are unchanged)', Dsrc[idx] == d[idx],
                               given=L[idx[2]], timeout_ms=60000)
            prove('species unchanged', list(res.species) == list(traj.species))
            prove('lattice unchanged', np.array_equal(np.asarray(res.lattice, dtype=float), np.asarray(traj.lattice, dtype=float)))
            prove('time step and metadata unchanged', res.time_step == traj.time_step and res.metadata == traj.metadata)
            # compositional cut: continue with the proved closed form of the corrected steps
            core.ctx().notes.append('cut: result.coords := d - mean_ref (proved equal to the computed corrected steps)')
            res.coords = E.copy()
            p0, q0 = traj.positions[0].copy(), res.positions[0].copy()
            for a in range(A):
                for c in range(3):
                    prove_isolated('first frame unchanged', q0[a, c] == p0[a, c])
            # applying the correction again changes nothing
            L2 = _lemma_recompute(gt, kind, E, b, M, Ebounds)
            res_b = _mk(gt, kind, E.copy(), b.copy(), M)
            res2 = res_b.apply_drift_correction(**kw)
            D2 = res2.displacements
            for idx in np.ndindex(D.shape):
                prove_isolated('second application leaves the steps unchanged', D2[idx] == E[idx], given=L2[idx[2]], timeout_ms=60000)
            res2.coords = E.copy()
            P1, P2 = res.positions.copy(), res2.positions.copy()
            for idx in np.ndindex(D.shape):
                prove_isolated('second application leaves .positions unchanged', P2[idx] == P1[idx], timeout_ms=60000)
            # rigid, time-dependent translation added before correcting: same corrected motion
            Sbounds = {}
            for t in range(1, T):
                for a in range(A):
                    for c in range(3):
                        e = d[t, a, c] + sig[t, c]
                        Sbounds[(t, a, c)] = conj([e > lo, e < hi])
                        assume(Sbounds[(t, a, c)])
            dm = d + sig[:, None, :]
            L3 = _lemma_recompute(gt, kind, dm, b, M, Sbounds)
            moved = _mk(gt, kind, dm.copy(), b.copy(), M)
            res3 = moved.apply_drift_correction(**kw)
            D3 = res3.displacements
            for idx in np.ndindex(D.shape):
                prove_isolated('rigid drift added to all atoms does not change the corrected motion', D3[idx] == E[idx],
                               given=L3[idx[2]], timeout_ms=60000)
            # floating = all other species fixed
            if sel.startswith('floating'):
                traj4 = _mk(gt, kind, d.copy(), b.copy(), M)
                res4 = traj4.apply_drift_correction(fixed_species=['S', 'Li'] if 'Si' in sel else ['Si', 'S'])
                D4 = res4.displacements
                for idx in np.ndindex(D.shape):
                    prove_isolated('naming the floating species = naming all other species as fixed', D4[idx] == E[idx],
                                   given=L[idx[2]], timeout_ms=60000)
            sample(dict(T=T, sel=sel, species=kind))

    return symbolic_job(params, body, drift_job_replay)


def drift_job_replay(params, inputs):
    import gemdat.trajectory as gt
    T, sel, kind, lat = params['T'], params['sel'], params['species_kind'], params['lattice']
    M = pool.lattice_matrices()[lat]
    A = len(SPECIES)
    ref = _ref_atoms(sel)
    kw = _sel_kwargs(sel)
    d = np.array([[[0.0 if t == 0 else float(inputs[f'd_{t}_{a}_{c}']) for c in range(3)] for a in range(A)] for t in range(T)])
    b = np.array([[float(inputs[f'b_{a}_{c}']) for c in range(3)] for a in range(A)])
    sig = np.array([[0.0 if t == 0 else float(inputs.get(f'sig_{t}_{c}', 0)) for c in range(3)] for t in range(T)])
    traj = _mk(gt, kind, d.copy(), b.copy(), M)
    desc = f'sel={sel} species={kind} d={d.tolist()} b={b.tolist()}'
    try:
        res = traj.apply_drift_correction(**kw)
        D = res.displacements
    except Exception as e:
        return False, f'{type(e).__name__}: {e}; {desc}'
    exp = d - d[:, ref].mean(axis=1)[:, None, :]
    # the drift itself needs no assumption beyond |step| < 1/2
    try:
        drift = _mk(gt, kind, d.copy(), b.copy(), M).drift(**kw)
    except Exception as e:
        return False, f'drift: {type(e).__name__}: {e}; {desc}'
    if drift.shape != (T, 1, 3) or not np.all(np.isfinite(drift)) or np.abs(drift[:, 0, :] - d[:, ref].mean(axis=1)).max() > 1e-9:
        return False, f'drift {drift[:, 0, :].tolist()} != mean displacement of the reference atoms {d[:, ref].mean(axis=1).tolist()}; {desc}'
    if np.abs(exp).max() >= 0.5 or np.abs(d + sig[:, None, :]).max() >= 0.5:
        return True, 'outside the claim (step reaches the half cell)'
    if D.shape != d.shape or not np.all(np.isfinite(D)) or np.abs(D - exp).max() > 1e-9:
        return False, f'corrected steps {D.tolist()} != steps - reference mean {exp.tolist()}; {desc}'
    if np.abs(traj.displacements - d).max() > 1e-9:
        return False, f'the source trajectory was altered by apply_drift_correction: steps {traj.displacements.tolist()} != {d.tolist()}; {desc}'
    if np.abs(D[:, ref].mean(axis=1)).max() > 1e-9:
        return False, f'mean displacement of the reference species not zero; {desc}'
    if np.abs(res.positions[0] - traj.positions[0]).max() > 1e-9 or list(res.species) != list(traj.species) \
            or res.metadata != traj.metadata or res.time_step != traj.time_step:
        return False, f'first frame / species / metadata changed; {desc}'
    res2 = res.apply_drift_correction(**kw)
    dp = np.abs(res2.positions - res.positions)
    if np.minimum(dp, 1 - dp).max() > 1e-9:
        return False, f'second application changes positions; {desc}'
    res3 = _mk(gt, kind, d + sig[:, None, :], b.copy(), M).apply_drift_correction(**kw)
    if np.abs(res3.displacements - D).max() > 1e-9:
        return False, f'rigid drift {sig.tolist()} changes the corrected motion; {desc}'
    if sel.startswith('floating'):
        D4 = traj.apply_drift_correction(fixed_species=['S', 'Li'] if 'Si' in sel else ['Si', 'S']).displacements
        if np.abs(D4 - D).max() > 1e-9:
            return False, f'floating selection differs from fixed selection of all other species; {desc}'
    return True, 'ok'


REPLAYS = dict(drift_job=drift_job_replay)


def jobs(tier, seed):
    js = []
    sels = ['fixed_str', 'fixed_list', 'floating_str', 'floating_list', 'none']
    if tier == 'quick':
        cfg = [(2, s, 'Species', 'cubic5') for s in sels] + [(3, 'fixed_str', 'Species', 'tric'), (2, 'floating_str', 'Element', 'cubic5'),
                                                             (2, 'fixed_str', 'Element', 'cubic5'), (2, 'floating_Si_str', 'Species', 'cubic5'),
                                                             (2, 'floating_Si_list', 'Element', 'cubic5'),
                                                             (2, 'floating_str', 'SpeciesOx', 'cubic5'), (2, 'fixed_list', 'SpeciesOx', 'cubic5')]
    else:
        cfg = [(T, s, k, lat) for T in (2, 3, 4) for s in sels + ['fixed_all_other', 'floating_Si_str', 'floating_Si_list'] for k in ('Species', 'Element')
               for lat in (('cubic5',) if T > 2 else ('cubic5', 'tric'))] + \
              [(2, s, 'SpeciesOx', 'cubic5') for s in sels + ['fixed_all_other', 'floating_Si_str', 'floating_Si_list']]
    for T, s, k, lat in cfg:
        js.append(dict(name=f'drift_T{T}_{s}_{k}_{lat}', fn='drift_job', params=dict(T=T, sel=s, species_kind=k, lattice=lat)))
    return js
