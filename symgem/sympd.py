"""pandas intercepts: DataFrame.sort_values on symbolic columns (fork on '<' only, so the
sorted keys stay symbolic instead of being hashed/concretised by pandas' factorize)."""
from __future__ import annotations

import pandas as pd

from .core import Sym

_orig_sort_values = pd.DataFrame.sort_values


def _lex_less(ra, rb):
    for a, b in zip(ra, rb):
        if bool(a < b):
            return True
        if bool(b < a):
            return False
    return False


def sym_sort_values(self, by, *args, axis=0, ascending=True, inplace=False, kind=None,
                    na_position='last', ignore_index=False, key=None):
    cols = [by] if isinstance(by, str) else list(by)
    symbolic = any(self[c].dtype == object and any(isinstance(v, Sym) for v in self[c].tolist()) for c in cols)
    if not symbolic:
        return _orig_sort_values(self, by, *args, axis=axis, ascending=ascending, inplace=inplace,
                                 kind=kind or 'quicksort', na_position=na_position,
                                 ignore_index=ignore_index, key=key)
    if args or axis != 0 or ascending is not True or inplace or key is not None:
        raise NotImplementedError('symbolic sort_values variant not modelled')
    keys = [tuple(r) for r in self[cols].values.tolist()]
    order = []  # stable insertion sort: insert after all elements that are <= the new one
    for idx, k in enumerate(keys):
        pos = len(order)
        while pos > 0 and _lex_less(k, keys[order[pos - 1]]):
            pos -= 1
        order.insert(pos, idx)
    out = self.iloc[order]
    if ignore_index:
        out = out.reset_index(drop=True)
    return out
