"""IEEE-754 binary64 scalars (z3 FloatingPoint) for the rounding-sensitive scalar kernels.

``SF64`` elements live in the same numpy object arrays as ``SNum``; comparisons return
``SBool`` so forking / ``prove`` work unchanged.  Semantics implemented:
  +, -, *, /         round-to-nearest-even (numpy float64 arithmetic)
  x % 1              numpy's npy_divmod: fmod (exact) then one RNE add when the signs differ
  rint / around      roundToIntegral(RNE)
  astype(int)        truncation toward zero (fp.to_sbv RTZ) -> ``SBV64``
"""
from __future__ import annotations

import z3

from . import core
from .core import SBool, Sym, mkb

F64 = z3.Float64()
RNE = z3.RNE()
RTZ = z3.RTZ()


def fpval(x):
    if isinstance(x, SF64):
        return x.t
    if isinstance(x, SBV64):
        return z3.fpSignedToFP(RNE, x.t, F64)
    if isinstance(x, bool):
        x = int(x)
    if isinstance(x, (int, float)) or type(x).__module__ == 'numpy':
        return z3.FPVal(float(x), F64)
    raise core.Inconclusive(f'cannot convert {type(x)} to float64 term')


def _ok(o):
    return isinstance(o, (SF64, SBV64, int, float)) or (type(o).__module__ == 'numpy' and getattr(o, 'ndim', 1) == 0)


class SF64(Sym):
    __slots__ = ()

    def _bin(self, o, f, rev=False):
        if not _ok(o):
            return NotImplemented
        a, b = self.t, fpval(o)
        if rev:
            a, b = b, a
        return SF64(z3.simplify(f(a, b)))

    def __add__(self, o):
        return self._bin(o, lambda a, b: z3.fpAdd(RNE, a, b))

    __radd__ = __add__

    def __sub__(self, o):
        return self._bin(o, lambda a, b: z3.fpSub(RNE, a, b))

    def __rsub__(self, o):
        return self._bin(o, lambda a, b: z3.fpSub(RNE, a, b), rev=True)

    def __mul__(self, o):
        return self._bin(o, lambda a, b: z3.fpMul(RNE, a, b))

    __rmul__ = __mul__

    def __truediv__(self, o):
        return self._bin(o, lambda a, b: z3.fpDiv(RNE, a, b))

    def __rtruediv__(self, o):
        return self._bin(o, lambda a, b: z3.fpDiv(RNE, a, b), rev=True)

    def __neg__(self):
        return SF64(z3.fpNeg(self.t))

    def __abs__(self):
        return SF64(z3.fpAbs(self.t))

    def __mod__(self, m):
        if isinstance(m, Sym) or float(m) != 1.0:
            raise core.Inconclusive('float64 % m modelled for m == 1 only')
        a = self.t
        one = z3.FPVal(1.0, F64)
        zero = z3.FPVal(0.0, F64)
        # fmod(a, 1) = a - trunc(a), exact in binary64 (inf/nan -> nan like C fmod)
        mod = z3.fpSub(RNE, a, z3.fpRoundToIntegral(RTZ, a))
        mod = z3.If(z3.Or(z3.fpIsInf(a), z3.fpIsNaN(a)), z3.fpNaN(F64), mod)
        # npy_divmod: if mod != 0 and sign(mod) != sign(b): mod += b ; if mod == 0: copysign(0, b)
        res = z3.If(z3.fpIsZero(mod), zero, z3.If(z3.fpLT(mod, zero), z3.fpAdd(RNE, mod, one), mod))
        return SF64(z3.simplify(res))

    def rint(self):
        return SF64(z3.fpRoundToIntegral(RNE, self.t))

    def __round__(self, n=None):
        return self.rint()

    def floor(self):
        return SF64(z3.fpRoundToIntegral(z3.RTN(), self.t))

    def trunc_int(self):
        return SBV64(z3.fpToSBV(RTZ, self.t, z3.BitVecSort(64)))

    def _cmp(self, o, f):
        if not _ok(o):
            return NotImplemented
        return mkb(f(self.t, fpval(o)))

    def __lt__(self, o):
        return self._cmp(o, z3.fpLT)

    def __le__(self, o):
        return self._cmp(o, z3.fpLEQ)

    def __gt__(self, o):
        return self._cmp(o, z3.fpGT)

    def __ge__(self, o):
        return self._cmp(o, z3.fpGEQ)

    def __eq__(self, o):
        return self._cmp(o, z3.fpEQ)

    def __ne__(self, o):
        return self._cmp(o, z3.fpNEQ)

    __hash__ = None

    def same_bits(self, o):
        """Bit-for-bit identity (distinguishes -0.0 from 0.0, equates identical NaNs)."""
        return mkb(self.t == fpval(o))

    def is_finite(self):
        return mkb(z3.Not(z3.Or(z3.fpIsInf(self.t), z3.fpIsNaN(self.t))))

    def __float__(self):
        raise core.Inconclusive('float() of a symbolic float64')


class SBV64(Sym):
    """Signed 64-bit integer (numpy int64)."""
    __slots__ = ()

    @staticmethod
    def _t(o):
        if isinstance(o, SBV64):
            return o.t
        return z3.BitVecVal(int(o), 64)

    def __add__(self, o):
        if isinstance(o, (float, SF64)):
            return SF64(fpval(self)) + o
        return SBV64(z3.simplify(self.t + self._t(o)))

    __radd__ = __add__

    def __sub__(self, o):
        if isinstance(o, (float, SF64)):
            return SF64(fpval(self)) - o
        return SBV64(z3.simplify(self.t - self._t(o)))

    def __mul__(self, o):
        if isinstance(o, (float, SF64)):
            return SF64(fpval(self)) * o
        return SBV64(z3.simplify(self.t * self._t(o)))

    __rmul__ = __mul__

    def __truediv__(self, o):
        return SF64(fpval(self)) / o

    def __rtruediv__(self, o):
        return o / SF64(fpval(self)) if isinstance(o, SF64) else SF64(fpval(o)) / SF64(fpval(self))

    def __eq__(self, o):
        return mkb(self.t == self._t(o))

    def __ne__(self, o):
        return mkb(self.t != self._t(o))

    def __lt__(self, o):
        return mkb(self.t < self._t(o))

    def __le__(self, o):
        return mkb(self.t <= self._t(o))

    def __gt__(self, o):
        return mkb(self.t > self._t(o))

    def __ge__(self, o):
        return mkb(self.t >= self._t(o))

    __hash__ = None


def sym_f64(name, finite=True):
    t = z3.FP(name, F64)
    core.ctx().inputs[name] = t
    bs = [z3.Not(z3.Or(z3.fpIsInf(t), z3.fpIsNaN(t)))] if finite else []
    core.ctx().solver.add(*bs)
    core.ctx().bounds[name] = bs
    return SF64(t)


def sym_i64(name, lo=None, hi=None):
    t = z3.BitVec(name, 64)
    core.ctx().inputs[name] = t
    bs = []
    if lo is not None:
        bs.append(t >= lo)
    if hi is not None:
        bs.append(t <= hi)
    core.ctx().solver.add(*bs)
    core.ctx().bounds[name] = bs
    return SBV64(t)


def fp_model_value(v):
    """Python float / int of a z3 FP / BV model value."""
    if z3.is_fp(v):
        if z3.is_fprm_value(v):
            return str(v)
        if v.isNaN():
            return float('nan')
        if v.isInf():
            return float('-inf') if v.isNegative() else float('inf')
        if v.isZero():
            return -0.0 if v.isNegative() else 0.0
        import struct
        bv = z3.simplify(z3.fpToIEEEBV(v)).as_long()
        return struct.unpack('>d', bv.to_bytes(8, 'big'))[0]
    if z3.is_bv_value(v):
        return v.as_signed_long()
    return None
