"""Job runner: explores harness jobs in parallel, replays counterexamples on the real
code, applies the known-findings file, writes evidence, prints the verdict lines."""
from __future__ import annotations

import hashlib
import importlib
import inspect
import json
import os
import sys
import time
import traceback
from concurrent.futures import ProcessPoolExecutor, as_completed
import multiprocessing as mp

VERIF = os.path.dirname(os.path.dirname(os.path.abspath(__file__)))
REPO_SRC = os.environ.get('GEMDAT_SRC', '/repo/src')

EXIT_OK, EXIT_VIOLATION, EXIT_INCONCLUSIVE = 0, 1, 3


def _setup_path():
    for p in (REPO_SRC, VERIF):
        if p in sys.path:
            sys.path.remove(p)
    sys.path.insert(0, VERIF)
    sys.path.insert(0, REPO_SRC)


# --------------------------------------------------------------------------- known findings


def load_findings():
    p = os.path.join(VERIF, 'known_findings.json')
    if not os.path.exists(p):
        return []
    with open(p) as f:
        return json.load(f).get('findings', [])


def open_findings(prop):
    return {f['id']: f for f in load_findings() if f['property'] == prop and f.get('status') == 'open'}


# --------------------------------------------------------------------------- function tracing


class FuncTrace:
    """Records which functions defined under /repo/src were entered (first path only)."""

    def __init__(self):
        self.seen = {}

    def __call__(self, frame, ev, arg):
        if ev == 'call':
            co = frame.f_code
            fn = co.co_filename
            if fn.startswith(REPO_SRC) and co.co_name != '<module>' and not co.co_name.startswith('<'):
                key = (fn, co.co_qualname if hasattr(co, 'co_qualname') else co.co_name, co.co_firstlineno)
                if key not in self.seen:
                    self.seen[key] = co
        return None

    def summary(self):
        out = []
        for (fn, qn, line), co in sorted(self.seen.items()):
            try:
                lines, start = inspect.getsourcelines(co)
                sha = hashlib.sha256(''.join(lines).encode()).hexdigest()[:16]
            except Exception:
                sha = '?'
            out.append(dict(function=qn, file=os.path.relpath(fn, os.path.dirname(REPO_SRC)), line=line, sha256_16=sha))
        return out


# --------------------------------------------------------------------------- one job


def symbolic_job(params, body, replay, *, timeout_ms=120000, budget_s=1500, max_paths=400000,
                 seed=0, validate=2, expect_reachable=True, in_known_class=None, split=None):
    """Explore ``body`` symbolically; replay counterexamples / sampled path models with
    ``replay(params, inputs) -> (holds: bool, detail: str)`` on the real code (concrete)."""
    from . import core
    t0 = time.time()
    out = dict(status='ok', message='', cex=[], known=[], validated=0)
    tracer = FuncTrace()
    first = [True]

    def traced_body():
        if first[0]:
            first[0] = False
            sys.setprofile(tracer)
            try:
                return body()
            finally:
                sys.setprofile(None)
        return body()

    c = None
    try:
        c = core.explore(traced_body, timeout_ms=timeout_ms, seed=seed, max_paths=max_paths,
                         budget_s=budget_s, split=split)
    except core.Inconclusive as e:
        out['status'] = 'inconclusive'
        out['message'] = f'{e}'
        out['trace'] = traceback.format_exc()[-1500:]
    except Exception as e:  # harness / stub error: never a pass, never a violation
        out['status'] = 'inconclusive'
        out['message'] = f'harness error: {type(e).__name__}: {e}'
        out['trace'] = traceback.format_exc()[-3000:]
    finally:
        sys.setprofile(None)
        if c is None:
            c = core.CTX
            core.CTX = None
    if c is not None:
        out['stats'] = c.stats
        out['labels'] = c.labels
        out['samples'] = [core.jsonable(s) for s in c.samples]
        out['functions'] = tracer.summary()
        out['notes'] = c.notes
    if out['status'] == 'ok' and c is not None:
        if expect_reachable and split is None and c.stats['paths'] == 0 and not c.cex:
            out['status'] = 'inconclusive'
            out['message'] = 'vacuous: no feasible path reached the end of the harness'
        for cx in c.cex:
            out['cex'].append(_replayed(cx, params, replay))
        for fid, cx in c.known_hits.items():
            r = _replayed(cx, params, replay)
            r['finding'] = fid
            out['known'].append(r)
        if any(r['reproduced'] for r in out['cex']):
            out['status'] = 'violation'
        elif out['cex']:
            out['status'] = 'inconclusive'
            out['message'] = 'non-reproducing model (stub/intercept over-approximation?): ' + \
                json.dumps(core.jsonable(out['cex'][0]))[:600]
        for r in out['known']:
            if not r['reproduced']:
                out['status'] = 'inconclusive' if out['status'] == 'ok' else out['status']
                out['message'] += f' known finding {r["finding"]} model did not reproduce;'
        # translation validation: models of completed (passing) paths must pass concretely
        if out['status'] == 'ok' and replay is not None:
            models = [m for m in c.path_models if not (in_known_class and in_known_class(m))]
            for inp in models[:validate]:
                try:
                    holds, detail = replay(params, inp)
                except Exception as e:
                    holds, detail = False, f'replay raised {type(e).__name__}: {e}'
                if holds:
                    out['validated'] += 1
                else:
                    out['status'] = 'inconclusive'
                    out['message'] = ('translation validation failed: a model of a proved path '
                                      f'fails concretely: {detail} inputs={core.jsonable(inp)}')[:1500]
                    break
            if c.path_models and out['status'] == 'ok':
                out.setdefault('samples', [])
                if len(out['samples']) < 2:
                    out['samples'].append(dict(path_model=core.jsonable(c.path_models[0])))
    out['wall_s'] = round(time.time() - t0, 2)
    return out


def merge_results(results):
    """Combine the outcomes of several explorations run inside one job."""
    out = dict(status='ok', message='', cex=[], known=[], validated=0, stats={}, labels={}, samples=[], functions=[], notes=[])
    rank = {'ok': 0, 'inconclusive': 1, 'violation': 2}
    for r in results:
        if rank[r['status']] > rank[out['status']]:
            out['status'] = r['status']
        if r.get('message'):
            out['message'] += r['message'] + ' | '
        if r.get('trace') and 'trace' not in out:
            out['trace'] = r['trace']
        out['cex'] += r.get('cex', [])
        out['known'] += r.get('known', [])
        out['validated'] += r.get('validated', 0)
        for k, v in (r.get('stats') or {}).items():
            if k == 'max_query_s':
                out['stats'][k] = max(out['stats'].get(k, 0), v)
            else:
                out['stats'][k] = out['stats'].get(k, 0) + v
        for k, v in (r.get('labels') or {}).items():
            out['labels'][k] = out['labels'].get(k, 0) + v
        out['samples'] += (r.get('samples') or [])[:1]
        seen = {(f['file'], f['function']) for f in out['functions']}
        out['functions'] += [f for f in r.get('functions', []) if (f['file'], f['function']) not in seen]
        out['notes'] += r.get('notes', [])
    out['samples'] = out['samples'][:3]
    out['notes'] = out['notes'][:5]
    return out


def _replayed(cx, params, replay):
    from . import core
    r = dict(label=cx['label'], inputs=core.jsonable(cx['inputs']), detail=cx.get('detail'))
    try:
        holds, detail = replay(params, cx['inputs'])
        r['reproduced'] = not holds
        r['replay_detail'] = str(detail)[:800]
    except Exception as e:
        # the symbolic run recorded an undocumented exception and the real code raises the same exception type on the
        # solver's input: that is the reproduction
        same = str(cx.get('label', '')).startswith(f'exception:{type(e).__name__}')
        r['reproduced'] = bool(same)
        r['replay_detail'] = (f'the real code raises {type(e).__name__}: {e}' if same else
                              f'replay raised {type(e).__name__}: {e}\n' + traceback.format_exc()[-800:])
    return r


def _worker_init():
    # die with the parent: a killed check must not leave solver workers behind
    try:
        import ctypes
        import signal
        ctypes.CDLL('libc.so.6', use_errno=True).prctl(1, signal.SIGKILL)
    except Exception:
        pass


def _run(modname, job):
    _setup_path()
    import warnings
    warnings.filterwarnings('ignore')
    mod = importlib.import_module('symgem.selftest' if job.get('selftest') else modname)
    fn = getattr(mod, job['fn'])
    t0 = time.time()
    try:
        res = fn(job['params'])
    except BaseException as e:  # noqa
        res = dict(status='inconclusive', message=f'job crashed: {type(e).__name__}: {e}',
                   trace=traceback.format_exc()[-3000:], cex=[], known=[], validated=0)
    res['name'] = job['name']
    res['fn'] = job['fn']
    res['params'] = job['params']
    res.setdefault('wall_s', round(time.time() - t0, 2))
    return res


# --------------------------------------------------------------------------- whole check


def run_check(prop, tier, seed, only=None, workers=None):
    _setup_path()
    t0 = time.time()
    modname = f'harness.{prop.lower()}'
    mod = importlib.import_module(modname)
    jobs = mod.jobs(tier, seed)
    if only:
        jobs = [j for j in jobs if only in j['name']]
    if not os.environ.get('VERIF_NO_SELFTEST'):
        from . import selftest
        jobs = jobs + [j for j in selftest.jobs(prop, tier, seed) if not only or only in j['name'] or 'selftest' == only]
    workers = workers or min(int(os.environ.get('VERIF_WORKERS', '16')), max(1, len(jobs)))
    results = []
    ctxm = mp.get_context('spawn')
    with ProcessPoolExecutor(max_workers=workers, mp_context=ctxm, initializer=_worker_init) as ex:
        futs = {ex.submit(_run, modname, j): j for j in jobs}
        for f in as_completed(futs):
            j = futs[f]
            try:
                r = f.result()
            except BaseException as e:  # worker died
                r = dict(name=j['name'], fn=j['fn'], params=j['params'], status='inconclusive',
                         message=f'worker failed: {type(e).__name__}: {e}', cex=[], known=[], validated=0)
            results.append(r)
            if os.environ.get('VERIF_VERBOSE'):
                st = r.get('stats', {})
                print(f"  [{r['status']:12s}] {r['name']:50s} paths={st.get('paths')} "
                      f"obl={st.get('obligations')} solver={st.get('solver_s', 0):.1f}s wall={r.get('wall_s')}s {r.get('message', '')[:200]}",
                      flush=True)
    results.sort(key=lambda r: r['name'])
    return finish(mod, prop, tier, seed, results, time.time() - t0)


def finish(mod, prop, tier, seed, results, wall):
    from . import core
    findings = open_findings(prop)
    os.makedirs(os.path.join(VERIF, 'evidence'), exist_ok=True)
    os.makedirs(os.path.join(VERIF, 'replays'), exist_ok=True)
    exit_code = EXIT_OK
    lines = []
    n_viol = 0
    known_seen = {}
    for r in results:
        if r['status'] == 'violation':
            for cx in r['cex']:
                if not cx['reproduced']:
                    continue
                n_viol += 1
                path = os.path.join(VERIF, 'replays', f"{prop}_{r['name']}.json".replace('/', '_'))
                with open(path, 'w') as f:
                    json.dump(dict(property=prop, module=mod.__name__, fn=r['fn'], params=r['params'],
                                   label=cx['label'], inputs=cx['inputs'], detail=cx.get('detail'),
                                   replay_detail=cx.get('replay_detail')), f, indent=1)
                lines.append(f'VIOLATION property={prop} replay={path}')
                lines.append(f'  job={r["name"]} obligation={cx["label"]} :: {cx.get("replay_detail", "")[:300]}')
            exit_code = EXIT_VIOLATION
        for k in r.get('known', []):
            if k['reproduced'] and k['finding'] in findings:
                known_seen.setdefault(k['finding'], (r, k))
    for r in results:
        if r['status'] == 'inconclusive':
            lines.append(f'INCONCLUSIVE property={prop} job={r["name"]}: {r.get("message", "")[:600]}')
            if r.get('trace') and os.environ.get('VERIF_VERBOSE'):
                lines.append(r['trace'])
            if exit_code == EXIT_OK:
                exit_code = EXIT_INCONCLUSIVE
    for fid, (r, k) in sorted(known_seen.items()):
        f = findings[fid]
        lines.append(f'KNOWN-FINDING: property={prop} {fid}: {f["what"]} (witness job={r["name"]} inputs={json.dumps(k["inputs"])[:200]})')

    agg = dict(paths=0, forks=0, forced=0, aborted=0, solver_calls=0, solver_s=0.0, obligations=0,
               discharged=0, trivial=0, sat=0, unsat=0, unknown=0, max_query_s=0.0)
    funcs = {}
    samples = []
    labels = {}
    validated = 0
    jobs_ev = []
    for r in results:
        st = r.get('stats') or {}
        for k in agg:
            if k == 'max_query_s':
                agg[k] = max(agg[k], st.get(k, 0))
            else:
                agg[k] += st.get(k, 0)
        for f in r.get('functions', []):
            funcs[(f['file'], f['function'])] = f
        for lb, n in (r.get('labels') or {}).items():
            labels[lb] = labels.get(lb, 0) + n
        validated += r.get('validated', 0)
        if r.get('samples') and len(samples) < 6:
            samples.append(dict(job=r['name'], params=r['params'], sample=r['samples'][:2]))
        jobs_ev.append(dict(job=r['name'], status=r['status'], paths=st.get('paths', 0),
                            forks=st.get('forks', 0), obligations=st.get('obligations', 0),
                            discharged=st.get('discharged', 0), solver_calls=st.get('solver_calls', 0),
                            solver_s=round(st.get('solver_s', 0), 2), wall_s=r.get('wall_s'),
                            validated=r.get('validated', 0),
                            known=[k['finding'] for k in r.get('known', []) if k['reproduced']]))
    if not samples:
        samples = [dict(job=r['name'], params=r['params']) for r in results[:3]]
    ev = dict(
        property_id=prop, tier=tier, seed=seed, level='model_checking',
        coverage=dict(
            states=max(agg['paths'], 0), transitions=agg['forks'] + agg['forced'],
            traces_validated_against_impl=validated, samples=samples,
            exhaustive=(exit_code == EXIT_OK),
            explanation=('states = completed symbolic paths of the real GEMDAT code (each path covers '
                         'every input satisfying its path condition); transitions = branch decisions '
                         '(forked + solver-forced); each obligation is a z3 query pc AND NOT phi that '
                         'must be unsat.'),
            obligations=agg['obligations'], discharged=agg['discharged'],
            obligations_by_label=labels, trivially_true=agg['trivial'],
            queries=dict(total=agg['solver_calls'], sat=agg['sat'], unsat=agg['unsat'], unknown=agg['unknown']),
            solver_s=round(agg['solver_s'], 2), max_query_s=round(agg['max_query_s'], 3),
            infeasible_paths=agg['aborted'],
            functions_encoded=sorted(funcs.values(), key=lambda f: (f['file'], f['line'])),
            bounds=getattr(mod, 'BOUNDS', {}).get(tier, ''),
            outside_bounds=getattr(mod, 'OUTSIDE', []),
            stubs=getattr(mod, 'STUBS', []),
            solver=_solver_version(),
            jobs=jobs_ev,
            known_findings_reported=sorted(known_seen),
            verdict={EXIT_OK: 'holds within bounds', EXIT_VIOLATION: 'violation',
                     EXIT_INCONCLUSIVE: 'inconclusive'}[exit_code],
        ),
        assumptions=getattr(mod, 'ASSUMPTIONS', []),
        wall_s=round(wall, 2), violations=n_viol,
    )
    if ev['coverage']['states'] < 1:
        ev['coverage']['states'] = 1 if results else 0
    if ev['coverage']['transitions'] < 1:
        ev['coverage']['transitions'] = max(1, agg['solver_calls'])
    with open(os.path.join(VERIF, 'evidence', f'{prop}.json'), 'w') as f:
        json.dump(ev, f, indent=1, default=str)
    for ln in lines:
        print(ln)
    print(f'{prop} [{tier}] jobs={len(results)} paths={agg["paths"]} obligations={agg["obligations"]} '
          f'discharged={agg["discharged"]} queries={agg["solver_calls"]} solver={agg["solver_s"]:.1f}s '
          f'validated={validated} wall={wall:.1f}s -> exit {exit_code}')
    return exit_code


def _solver_version():
    try:
        import z3
        return 'z3 ' + z3.get_version_string()
    except Exception:
        return '?'


def replay_file(path):
    _setup_path()
    with open(path) as f:
        d = json.load(f)
    from . import core
    mod = importlib.import_module(d['module'])
    rep = getattr(mod, d['fn'] + '_replay', None) or getattr(mod, 'REPLAYS')[d['fn']]
    inputs = {k: core.unjson_num(v) for k, v in d['inputs'].items()}
    holds, detail = rep(d['params'], inputs)
    print(('property holds on this input: ' if holds else 'VIOLATION reproduced: ') + str(detail))
    return 0 if holds else 1
