"""numpy layer: real numpy ``dtype=object`` arrays holding symbolic scalars.

* ``SymArray`` – ndarray subclass (object dtype) that implements the few *methods* numpy
  cannot run on objects (mask / symbolic-index get & set, astype, min/max/any/all, std).
* ``NPProxy`` – bound to the module-global name ``np`` of the modules under test while a
  harness runs.  Every attribute is forwarded to real numpy; the functions numpy cannot
  run on symbolic elements are intercepted with a few lines implementing numpy's
  documented semantics (merging with If-terms where numpy only *selects* values).

All intercepts also accept concrete ``Fraction``/``int`` elements ("concrete mode"), which
is how selftest validates them differentially against real numpy.
"""
from __future__ import annotations

import itertools
from fractions import Fraction

import numpy as _np

from . import core
from .core import (SBool, SNum, Sym, Inconclusive, conj, disj, ite, mk, mkb, rat, sfloor,
                   sfloor_int, smax, smin, srint, ssum, strunc_int)

# --------------------------------------------------------------------------- helpers


def is_symarr(a):
    return isinstance(a, _np.ndarray) and a.dtype == object


def has_sym(*args):
    for a in args:
        if isinstance(a, Sym) or isinstance(a, Fraction):
            return True
        if isinstance(a, _np.ndarray):
            if a.dtype == object:
                return True
        elif isinstance(a, (list, tuple)):
            if has_sym(*a):
                return True
        elif hasattr(a, 'dtypes') or (hasattr(a, 'dtype') and hasattr(a, 'index') and hasattr(a, 'values')):
            # pandas DataFrame / Series holding objects
            try:
                if _np.asarray(a).dtype == object:
                    return True
            except Exception:
                pass
    return False


def S(a):
    """Object-dtype SymArray view/copy of anything array-like."""
    if isinstance(a, SymArray):
        return a
    if not isinstance(a, (_np.ndarray, list, tuple, Sym)) and hasattr(a, '__array__'):
        a = _np.asarray(a)
    if isinstance(a, _np.ndarray) and a.dtype == object:
        return a.view(SymArray)
    if isinstance(a, _np.ndarray):
        out = _np.empty(a.shape, dtype=object)
        if a.dtype.kind in 'iub':
            flat = [int(v) if a.dtype.kind != 'b' else bool(v) for v in a.ravel().tolist()]
        else:
            flat = a.ravel().tolist()
        out.ravel()[:] = flat if a.size else []
        return out.view(SymArray)
    if isinstance(a, Sym) or not isinstance(a, (list, tuple)):
        out = _np.empty((), dtype=object)
        out[()] = a
        return out.view(SymArray)
    # nested lists possibly containing arrays / Sym
    shape = _shape_of(a)
    out = _np.empty(shape, dtype=object)
    for idx in _np.ndindex(shape):
        v = a
        for i in idx:
            v = v[i]
        if isinstance(v, _np.generic):
            v = v.item()
        out[idx] = v
    return out.view(SymArray)


def _shape_of(a):
    if isinstance(a, _np.ndarray):
        return a.shape
    if isinstance(a, (list, tuple)):
        if len(a) == 0:
            return (0,)
        return (len(a),) + _shape_of(a[0])
    return ()


def wrap(r):
    if isinstance(r, _np.ndarray) and r.dtype == object and not isinstance(r, SymArray):
        return r.view(SymArray)
    if isinstance(r, tuple):
        return tuple(wrap(x) for x in r)
    if isinstance(r, list):
        return [wrap(x) for x in r]
    return r


def elementwise(f, *arrs):
    bs = _np.broadcast_arrays(*[_np.asarray(S(a)) for a in arrs])
    out = _np.empty(bs[0].shape, dtype=object)
    for idx in _np.ndindex(out.shape):
        out[idx] = f(*[b[idx] for b in bs])
    if out.ndim == 0:
        return out[()]
    return out.view(SymArray)


def force_bool_array(m):
    """Object array of bool/SBool -> real bool array (forks on symbolic entries)."""
    m = _np.asarray(m)
    out = _np.empty(m.shape, dtype=bool)
    for idx in _np.ndindex(m.shape):
        out[idx] = bool(m[idx])
    return out


def _all_concrete_int(a):
    return all(core._is_intlike(v) for v in a.ravel().tolist())


def _kind(a):
    """'bool' | 'int' | 'other' for an object array (by inspecting elements)."""
    vals = a.ravel().tolist()
    if not vals:
        return 'empty'
    if all(isinstance(v, (bool, SBool, _np.bool_)) for v in vals):
        return 'bool'
    return 'num'


# --------------------------------------------------------------------------- SymArray


class SymArray(_np.ndarray):
    __array_priority__ = 100

    # ---- ufuncs ---------------------------------------------------------------
    def __array_ufunc__(self, ufunc, method, *inputs, out=None, **kwargs):
        ins = tuple(_np.asarray(x) if isinstance(x, SymArray) else x for x in inputs)
        if out is not None:
            kwargs['out'] = tuple(_np.asarray(o) if isinstance(o, SymArray) else o for o in out)
        if method == '__call__' and ufunc in _OBJ_RESULT and 'dtype' not in kwargs and out is None:
            # comparisons / logical ops: keep symbolic truth values instead of forcing bool()
            if ufunc is _np.logical_not:
                r = elementwise(lambda v: ~_truthv(v), ins[0])
            elif ufunc is _np.logical_and:
                r = elementwise(lambda a, b: _truthv(a) & _truthv(b), *ins)
            elif ufunc is _np.logical_or:
                r = elementwise(lambda a, b: _truthv(a) | _truthv(b), *ins)
            else:
                r = ufunc(*ins, dtype=object, **kwargs)
            return _maybe_bool(r)
        r = getattr(ufunc, method)(*ins, **kwargs)
        if out is not None and len(out) == 1:
            return out[0]
        return wrap(r)

    # ---- indexing -------------------------------------------------------------
    def _norm_key(self, key):
        """Return (key, symbolic) with object masks forced and concrete object index arrays
        converted; symbolic=True if some component is a symbolic integer index."""
        if isinstance(key, tuple):
            comps = [self._norm_comp(k) for k in key]
            return tuple(c for c, _ in comps), any(s for _, s in comps)
        c, s = self._norm_comp(key)
        return c, s

    @staticmethod
    def _norm_comp(k):
        if isinstance(k, SBool):
            return bool(k), False
        if isinstance(k, SNum):
            return k, True
        if isinstance(k, list) and has_sym(k):
            k = _np.asarray(S(k))
        if isinstance(k, _np.ndarray) and k.dtype == object:
            kind = _kind(k)
            if kind == 'bool':
                return force_bool_array(k), False
            if kind == 'empty':
                return _np.zeros(k.shape, dtype=int), False
            if _all_concrete_int(k):
                return _np.array(k.tolist(), dtype=int).reshape(k.shape), False
            return _np.asarray(k), True
        return k, False

    def __getitem__(self, key):
        key, symbolic = self._norm_key(key)
        if not symbolic:
            return super().__getitem__(key)
        return _sym_getitem(self, key)

    def __setitem__(self, key, value):
        # merged masked assignment of a scalar: a[mask] = v
        if isinstance(key, _np.ndarray) and key.dtype == object and _kind(key) == 'bool' \
                and key.shape == self.shape and _np.ndim(value) == 0:
            base = _np.asarray(self)
            for idx in _np.ndindex(self.shape):
                _np.ndarray.__setitem__(base, idx, ite(key[idx], value, base[idx]))
            return
        key, symbolic = self._norm_key(key)
        if isinstance(value, _np.ndarray) and value.dtype != object and value.dtype.kind in 'iub':
            value = _np.asarray(S(value))
        if not symbolic:
            return super().__setitem__(key, value)
        _sym_setitem(self, key, value)

    # ---- conversions ----------------------------------------------------------
    def astype(self, dtype, *a, **k):
        if dtype is object or dtype == object:
            return self.copy()
        dt = _np.dtype(dtype)
        if dt.kind in 'iu':
            return elementwise(strunc_int, self) if self.ndim else strunc_int(self[()])
        if dt.kind == 'f':
            return self.copy()
        if dt.kind == 'b':
            return elementwise(lambda v: v != 0 if not isinstance(v, (bool, SBool)) else v, self)
        raise Inconclusive(f'astype({dtype}) on symbolic array')

    @property
    def real(self):
        return self

    @property
    def imag(self):
        return S(_np.zeros(self.shape, dtype=int))

    # ---- reductions -----------------------------------------------------------
    def _reduce(self, f, axis, keepdims=False):
        a = _np.asarray(self)
        if axis is None:
            r = f(a.ravel().tolist())
            if keepdims:
                return S([r]).reshape((1,) * a.ndim)
            return r
        axis = axis % a.ndim
        moved = _np.moveaxis(a, axis, -1)
        out = _np.empty(moved.shape[:-1], dtype=object)
        for idx in _np.ndindex(out.shape):
            out[idx] = f(moved[idx].tolist())
        if keepdims:
            out = _np.expand_dims(out, axis)
        if out.ndim == 0:
            return out[()]
        return out.view(SymArray)

    def min(self, axis=None, out=None, keepdims=False, **k):
        return self._reduce(smin, axis, keepdims)

    def max(self, axis=None, out=None, keepdims=False, **k):
        return self._reduce(smax, axis, keepdims)

    def any(self, axis=None, out=None, keepdims=False, **k):
        return self._reduce(lambda xs: disj([_truth(x) for x in xs]), axis, keepdims)

    def all(self, axis=None, out=None, keepdims=False, **k):
        return self._reduce(lambda xs: conj([_truth(x) for x in xs]), axis, keepdims)

    def std(self, axis=None, dtype=None, out=None, ddof=0, keepdims=False, **k):
        def f(xs):
            n = len(xs)
            m = ssum(xs) / n
            var = ssum([(x - m) * (x - m) for x in xs]) / (n - ddof)
            return _sroot(var)
        return self._reduce(f, axis, keepdims)

    def round(self, decimals=0, out=None):
        if decimals != 0:
            raise Inconclusive('round(decimals != 0) on symbolic array')
        return elementwise(srint, self)

    def argmin(self, *a, **k):
        raise Inconclusive('argmin on symbolic array not modelled')

    argmax = argmin

    def sort(self, *a, **k):
        raise Inconclusive('sort on symbolic array not modelled')


_OBJ_RESULT = {_np.equal, _np.not_equal, _np.less, _np.less_equal, _np.greater, _np.greater_equal,
               _np.logical_and, _np.logical_or, _np.logical_not}


def _truthv(x):
    if isinstance(x, (bool, SBool)):
        return x
    if isinstance(x, _np.bool_):
        return bool(x)
    return x != 0


def _maybe_bool(r):
    """Object array of truth values -> real bool array when nothing symbolic is inside."""
    if isinstance(r, _np.ndarray) and r.dtype == object:
        flat = r.ravel().tolist()
        if not any(isinstance(v, Sym) for v in flat):
            return _np.array([bool(v) for v in flat], dtype=bool).reshape(r.shape)
        return r.view(SymArray)
    if isinstance(r, Sym):
        return r
    return r


def _truth(x):
    if isinstance(x, (bool, SBool, _np.bool_)):
        return x
    return x != 0


def _axis_candidates(n, k):
    """Candidate positions for index k along an axis of length n (with negative wrap)."""
    if not isinstance(k, Sym):
        kk = int(k)
        if kk < -n or kk >= n:
            raise IndexError(f'index {kk} is out of bounds for axis with size {n}')
        return [(kk % n, True)]
    res = []
    for p in range(n):
        res.append((p, mkb(core.z3.Or((k == p).t if isinstance(k == p, SBool) else core.z3.BoolVal(bool(k == p)),
                                       (k == p - n).t if isinstance(k == p - n, SBool) else core.z3.BoolVal(bool(k == p - n))))))
    return res


def _check_bounds(n, k):
    if isinstance(k, Sym):
        ok = (k >= -n) & (k < n)
        if not bool(ok):  # forks: the out-of-range path raises like numpy does
            raise IndexError(f'symbolic index out of bounds for axis with size {n}')


def _index_tuple(arr, key):
    """Broadcast integer-array components of a fully integer advanced index."""
    if not isinstance(key, tuple):
        key = (key,)
    for k in key:
        if isinstance(k, slice) or k is None or k is Ellipsis:
            raise Inconclusive('symbolic index mixed with slices is not modelled')
    comps = [_np.asarray(S(k)) if not isinstance(k, _np.ndarray) else k for k in key]
    bs = _np.broadcast_arrays(*comps)
    return bs


def _sym_getitem(arr, key):
    base = _np.asarray(arr)
    bs = _index_tuple(base, key)
    nidx = len(bs)
    rest = base.shape[nidx:]
    out = _np.empty(bs[0].shape + rest, dtype=object)
    for pos in _np.ndindex(bs[0].shape):
        ks = [b[pos] for b in bs]
        for ax, k in enumerate(ks):
            _check_bounds(base.shape[ax], k)
        cands = [_axis_candidates(base.shape[ax], k) for ax, k in enumerate(ks)]
        for r in _np.ndindex(rest):
            val = None
            for combo in itertools.product(*cands):
                p = tuple(c[0] for c in combo)
                cond = conj([c[1] for c in combo])
                v = base[p + r]
                val = v if val is None else ite(cond, v, val)
            out[pos + r] = val
    if out.ndim == 0:
        return out[()]
    return out.view(SymArray)


def _sym_setitem(arr, key, value):
    base = _np.asarray(arr)
    bs = _index_tuple(base, key)
    nidx = len(bs)
    if nidx != base.ndim:
        raise Inconclusive('partial symbolic index assignment not modelled')
    vals = _np.broadcast_to(_np.asarray(S(value)), bs[0].shape)
    for pos in _np.ndindex(bs[0].shape):
        ks = [b[pos] for b in bs]
        for ax, k in enumerate(ks):
            _check_bounds(base.shape[ax], k)
        cands = [_axis_candidates(base.shape[ax], k) for ax, k in enumerate(ks)]
        for combo in itertools.product(*cands):
            p = tuple(c[0] for c in combo)
            cond = conj([c[1] for c in combo])
            _np.ndarray.__setitem__(base, p, ite(cond, vals[pos], base[p]))


# --------------------------------------------------------------------------- intercepts


def _mod(x, m, *a, **k):
    return elementwise(lambda v, mm: v % mm, x, m)


def _around(x, decimals=0, out=None):
    if decimals != 0:
        raise Inconclusive('around(decimals != 0) on symbolic array')
    return elementwise(srint, x)


def _floor(x, *a, **k):
    return elementwise(sfloor, x)


def _ceil(x, *a, **k):
    return elementwise(lambda v: -sfloor(-v), x)


def _sroot(v):
    """sqrt as a distance-by-its-square (keeps the solver side polynomial)."""
    if isinstance(v, core.SRoot):
        return core.SRoot(v.val())
    if isinstance(v, Sym):
        return core.SRoot(v)
    f = rat(v)
    import math
    n, d = math.isqrt(f.numerator) if f >= 0 else 0, math.isqrt(f.denominator)
    if f >= 0 and n * n == f.numerator and d * d == f.denominator:
        return Fraction(n, d)
    if f < 0:
        raise Inconclusive('sqrt of a negative number')
    return core.SRoot(f)


def _sqrt(x, *a, **k):
    if isinstance(x, Spectrum):
        raise Inconclusive('sqrt of a spectrum')
    return elementwise(_sroot, x)


def _sign(x, *a, **k):
    return elementwise(lambda v: ite(v > 0, 1, ite(v < 0, -1, 0)), x)


def _abs(x, *a, out=None, **k):
    if isinstance(x, Spectrum):
        return x.abs(out=out)
    r = elementwise(abs, x)
    if out is not None:
        out[...] = r
        return out
    return r


def _square(x, *a, out=None, **k):
    if isinstance(x, Spectrum):
        return x.square(out=out)
    r = elementwise(lambda v: v * v, x)
    if out is not None:
        out[...] = r
        return out
    return r


def _where(cond, *xy):
    if not xy:
        return _nonzero(cond)
    x, y = xy
    return elementwise(ite, cond, x, y)


def _nonzero(a):
    a = _np.asarray(a)
    if a.dtype == object:
        a = force_bool_array(elementwise(_truth, a) if a.ndim else S([_truth(a[()])]))
    return _np.nonzero(a)


def _argwhere(a):
    a = _np.asarray(a)
    if a.dtype == object:
        a = force_bool_array(elementwise(_truth, a))
    return _np.argwhere(a)


def _maximum(a, b, out=None, **k):
    r = elementwise(lambda x, y: ite(x >= y, x, y), a, b)
    if out is not None:
        out[...] = r
        return out
    return r


def _minimum(a, b, out=None, **k):
    r = elementwise(lambda x, y: ite(x <= y, x, y), a, b)
    if out is not None:
        out[...] = r
        return out
    return r


class _UfuncProxy:
    def __init__(self, real, binary):
        self._real = real
        self._binary = binary

    def __call__(self, *a, **k):
        if has_sym(*a):
            return self._binary(*a, **k)
        return self._real(*a, **k)

    def accumulate(self, arr, axis=0, out=None, **k):
        if not has_sym(arr):
            return self._real.accumulate(arr, axis=axis, out=out, **k)
        a = _np.asarray(S(arr))
        moved = _np.moveaxis(a, axis, 0)
        res = _np.empty(moved.shape, dtype=object)
        for idx in _np.ndindex(moved.shape[1:]):
            acc = None
            for t in range(moved.shape[0]):
                v = moved[(t,) + idx]
                acc = v if acc is None else self._binary(S(acc), S(v))
                if isinstance(acc, _np.ndarray):
                    acc = acc[()]
                res[(t,) + idx] = acc
        res = _np.moveaxis(res, 0, axis)
        if out is not None:
            out[...] = res
            return out
        return res.view(SymArray)

    def reduce(self, arr, axis=0, **k):
        if not has_sym(arr):
            return self._real.reduce(arr, axis=axis, **k)
        f = smax if self._real is _np.maximum else smin
        return S(arr)._reduce(f, axis)

    def __getattr__(self, n):
        return getattr(self._real, n)


def _amin(a, axis=None, out=None, keepdims=False, **k):
    return S(a).min(axis=axis, keepdims=keepdims)


def _amax(a, axis=None, out=None, keepdims=False, **k):
    return S(a).max(axis=axis, keepdims=keepdims)


def _any(a, axis=None, out=None, keepdims=False, **k):
    return S(a).any(axis=axis, keepdims=keepdims)


def _all(a, axis=None, out=None, keepdims=False, **k):
    return S(a).all(axis=axis, keepdims=keepdims)


def _std(a, axis=None, dtype=None, out=None, ddof=0, keepdims=False, **k):
    return S(a).std(axis=axis, ddof=ddof, keepdims=keepdims)


def _norm(x, ord=None, axis=None, keepdims=False):
    if ord not in (None, 2):
        raise Inconclusive('linalg.norm with ord != 2 on symbolic array')
    return S(x)._reduce(lambda xs: _sroot(ssum([v * v for v in xs])), axis, keepdims)


def _bins_concrete(bins):
    b = [v for v in _np.asarray(bins).ravel().tolist()]
    if any(isinstance(v, Sym) for v in b):
        raise Inconclusive('symbolic bin edges not modelled')
    return [rat(v) for v in b]


def _digitize(x, bins, right=False):
    b = _bins_concrete(bins)
    inc = all(b[i] <= b[i + 1] for i in range(len(b) - 1))
    dec = all(b[i] >= b[i + 1] for i in range(len(b) - 1))
    if not (inc or dec):
        raise ValueError('bins must be monotonically increasing or decreasing')

    def f(v):
        tot = 0
        for e in b:
            if inc:
                c = (v > e) if right else (v >= e)
            else:
                c = (v <= e) if right else (v < e)
            tot = tot + ite(c, 1, 0)
        return tot
    return elementwise(f, x)


def _histogram(a, bins=10, range=None, density=None, weights=None):
    rng_arg, range = range, __builtins__['range'] if isinstance(__builtins__, dict) else __builtins__.range
    if density or weights is not None or rng_arg is not None or _np.ndim(bins) == 0:
        raise Inconclusive('histogram variant not modelled')
    b = _bins_concrete(bins)
    xs = _np.asarray(S(a)).ravel().tolist()
    counts = _np.empty(len(b) - 1, dtype=object)
    for i in range(len(b) - 1):
        last = i == len(b) - 2
        counts[i] = ssum([ite(conj([v >= b[i], (v <= b[i + 1]) if last else (v < b[i + 1])]), 1, 0)
                          for v in xs]) if xs else 0
    return counts.view(SymArray), S(list(b))


def _bincount(x, weights=None, minlength=0):
    if weights is not None:
        raise Inconclusive('bincount(weights) not modelled')
    xs = _np.asarray(S(x)).ravel().tolist()
    n = int(minlength)
    for v in xs:
        if isinstance(v, Sym):
            if not bool((v >= 0) & (v < n)):
                raise Inconclusive('bincount: symbolic value outside [0, minlength)')
        else:
            n = max(n, int(v) + 1)
    out = _np.empty(n, dtype=object)
    for b in range(n):
        out[b] = ssum([ite(v == b, 1, 0) for v in xs]) if xs else 0
    return out.view(SymArray)


def _lex_lt(r1, r2):
    """Python bool (forks): row r1 < row r2 lexicographically."""
    for a, b in zip(r1, r2):
        if bool(a < b):
            return True
        if bool(a > b):
            return False
    return False


def _rows_eq(r1, r2):
    return bool(conj([a == b for a, b in zip(r1, r2)]))


def _unique(ar, return_index=False, return_inverse=False, return_counts=False, axis=None, **k):
    if return_index or return_inverse:
        raise Inconclusive('unique(return_index/inverse) on symbolic array not modelled')
    a = _np.asarray(S(ar))
    if axis is None:
        rows = [(v,) for v in a.ravel().tolist()]
    elif axis == 0:
        a2 = a.reshape(a.shape[0], -1)
        rows = [tuple(r) for r in a2.tolist()]
    else:
        raise Inconclusive('unique(axis != 0) on symbolic array not modelled')
    # insertion sort with forking comparisons, grouping equal rows
    groups = []  # list of [row, count]
    for r in rows:
        placed = False
        for g in groups:
            if _rows_eq(g[0], r):
                g[1] += 1
                placed = True
                break
        if not placed:
            pos = 0
            while pos < len(groups) and _lex_lt(groups[pos][0], r):
                pos += 1
            groups.insert(pos, [r, 1])
    if axis is None:
        vals = S([g[0][0] for g in groups]) if groups else S(_np.empty((0,), dtype=object))
    else:
        ncol = a.reshape(a.shape[0], -1).shape[1]
        vals = _np.empty((len(groups), ncol), dtype=object)
        for i, g in enumerate(groups):
            for j in range(ncol):
                vals[i, j] = g[0][j]
        vals = vals.reshape((len(groups),) + a.shape[1:]).view(SymArray)
    if return_counts:
        return vals, _np.array([g[1] for g in groups], dtype=int)
    return vals


def _linspace(start, stop, num=50, endpoint=True, retstep=False, dtype=None, axis=0):
    if has_sym(start, stop) or not endpoint or retstep:
        raise Inconclusive('linspace variant not modelled')
    if dtype is not None and _np.dtype(dtype).kind in 'iu':
        return _np.linspace(start, stop, num, dtype=dtype)
    if all(core._is_intlike(v) for v in (start, stop)) and False:
        return _np.linspace(start, stop, num)
    a, b = rat(start), rat(stop)
    num = int(num)
    if num == 1:
        return S([a])
    return S([a + (b - a) * Fraction(k, num - 1) for k in range(num)])


def _arange(*args, dtype=None, **k):
    if has_sym(*args):
        raise Inconclusive('arange with symbolic arguments not modelled')
    if all(core._is_intlike(v) for v in args) or (dtype is not None and _np.dtype(dtype).kind in 'iu'):
        return _np.arange(*args, dtype=dtype, **k)
    if len(args) == 1:
        start, stop, step = Fraction(0), rat(args[0]), Fraction(1)
    elif len(args) == 2:
        start, stop, step = rat(args[0]), rat(args[1]), Fraction(1)
    else:
        start, stop, step = (rat(v) for v in args)
    n = -((start - stop) // step)  # ceil((stop-start)/step)
    n = max(int(n), 0)
    return S([start + step * i for i in range(n)])


def _zeros(shape, dtype=float, **k):
    return _full(shape, 0, dtype=dtype)


def _ones(shape, dtype=float, **k):
    return _full(shape, 1, dtype=dtype)


def _empty(shape, dtype=float, **k):
    return _full(shape, 0, dtype=dtype)


def _full(shape, fill_value, dtype=None, **k):
    if dtype is not None and _np.dtype(dtype).kind not in 'iuf':
        return _np.full(shape, fill_value, dtype=dtype)
    if dtype is None and isinstance(fill_value, (bool, _np.bool_, str)):
        return _np.full(shape, fill_value)
    out = _np.empty(shape, dtype=object)
    v = fill_value
    if isinstance(v, _np.generic):
        v = v.item()
    if isinstance(v, float) and v == int(v) and dtype is not None and _np.dtype(dtype).kind in 'iu':
        v = int(v)
    if isinstance(v, float):
        v = rat(v)
    out.fill(v)
    return out.view(SymArray)


def _like(f):
    def g(a, dtype=None, **k):
        a = _np.asarray(a)
        if a.dtype == object or (dtype is None and a.dtype.kind in 'iuf') or \
                (dtype is not None and _np.dtype(dtype).kind in 'iuf'):
            if a.dtype != object and a.dtype.kind in 'iu' and dtype is None:
                return f(a)  # integer helper arrays (ones_like(time)) stay concrete
            return _full(a.shape, 0 if f is _np.zeros_like else 1)
        return f(a, dtype=dtype, **k)
    return g


def _array(obj, dtype=None, *a, **k):
    if has_sym(obj):
        if isinstance(obj, _np.ndarray) and obj.dtype == object:
            r = obj.copy() if k.get('copy', True) else obj
            return r.view(SymArray)
        try:
            return S(obj).copy()
        except Exception:
            pass
    if dtype is object or (dtype is not None and not isinstance(dtype, (list, dict)) and _np.dtype(dtype) == object):
        return wrap(_np.array(obj, dtype=object, *a, **k))
    return _np.array(obj, dtype=dtype, *a, **k)


def _asarray(obj, dtype=None, *a, **k):
    if isinstance(obj, _np.ndarray) and obj.dtype == object:
        return wrap(obj)
    if has_sym(obj):
        return S(obj)
    return _np.asarray(obj, dtype=dtype, *a, **k)


def _log(x, *a, **k):
    from . import transc
    return elementwise(transc.slog, x)


def _exp(x, *a, **k):
    from . import transc
    return elementwise(transc.sexp, x)


def _nan_to_num(x, *a, **k):
    from . import transc
    return elementwise(transc.nan_to_num, x)


def _uf(name, arity):
    import z3
    return z3.Function(name, *([z3.RealSort()] * (arity + 1)))


def _arcsin(x, *a, **k):
    f = _uf('ASIN', 1)
    return elementwise(lambda v: core.SNum(f(core._real(v))), x)


def _arctan2(y, x, *a, **k):
    f = _uf('ATAN2', 2)
    return elementwise(lambda u, v: core.SNum(f(core._real(u), core._real(v))), y, x)


def _degrees(x, *a, **k):
    f = _uf('DEGREES', 1)
    return elementwise(lambda v: core.SNum(f(core._real(v))), x)


def _isnan(x, *a, **k):
    return elementwise(lambda v: False, x)


ASSUME_IRFFT_INTENDED_LENGTH = False


class Spectrum:
    """Lazy result of fft/rfft of a real symbolic signal (zero-padded / truncated to n along axis).
    Only the uses the Wiener-Khinchin theorem covers are given a meaning:
    ifft(|fft(x, n)|^2) and irfft(|rfft(x, n)|^2, n) = circular autocorrelation of the padded signal."""

    def __init__(self, signal, n, axis, kind, stage='raw'):
        self.signal, self.n, self.axis, self.kind, self.stage = signal, n, axis, kind, stage

    @property
    def shape(self):
        sh = list(self.signal.shape)
        sh[self.axis] = self.n if self.kind == 'fft' else self.n // 2 + 1
        return tuple(sh)

    def abs(self, out=None):
        if self.stage != 'raw':
            raise Inconclusive('abs of a processed spectrum')
        r = Spectrum(self.signal, self.n, self.axis, self.kind, 'abs')
        if out is not None:
            out.__dict__.update(r.__dict__)
            return out
        return r

    def square(self, out=None):
        if self.stage != 'abs':
            raise Inconclusive('square of a spectrum that is not |X|')
        r = Spectrum(self.signal, self.n, self.axis, self.kind, 'power')
        if out is not None:
            out.__dict__.update(r.__dict__)
            return out
        return r

    def __pow__(self, k):
        if k == 2:
            return self.square()
        raise Inconclusive('power of a spectrum')

    def autocorrelation(self, n_out):
        """Circular autocorrelation of the padded signal, length n_out along axis (needs n_out == n)."""
        if self.stage != 'power':
            raise Inconclusive('inverse transform of something other than a power spectrum')
        if n_out != self.n:
            return None
        x = _np.moveaxis(_np.asarray(S(self.signal)), self.axis, 0)
        T = x.shape[0]
        pad = _np.empty((self.n,) + x.shape[1:], dtype=object)
        pad.fill(0)
        pad[:min(T, self.n)] = x[:min(T, self.n)]
        out = _np.empty_like(pad)
        for k in range(self.n):
            for idx in _np.ndindex(pad.shape[1:]):
                out[(k,) + idx] = ssum([pad[(j,) + idx] * pad[((j + k) % self.n,) + idx] for j in range(self.n)])
        return _np.moveaxis(out, 0, self.axis).view(SymArray)


class _FFT:
    """np.fft stand-in (see Spectrum)."""

    def __init__(self):
        self.fresh = 0

    def fft(self, a, n=None, axis=-1, **k):
        if not has_sym(a):
            return _np.fft.fft(a, n=n, axis=axis, **k)
        a = S(a)
        axis = axis % a.ndim
        return Spectrum(a, a.shape[axis] if n is None else int(n), axis, 'fft')

    def rfft(self, a, n=None, axis=-1, **k):
        if not has_sym(a):
            return _np.fft.rfft(a, n=n, axis=axis, **k)
        a = S(a)
        axis = axis % a.ndim
        return Spectrum(a, a.shape[axis] if n is None else int(n), axis, 'rfft')

    def ifft(self, spec, n=None, axis=-1, **k):
        if not isinstance(spec, Spectrum):
            return _np.fft.ifft(spec, n=n, axis=axis, **k)
        if spec.kind != 'fft' or (axis % len(spec.shape)) != spec.axis:
            raise Inconclusive('ifft of an rfft spectrum / other axis')
        r = spec.autocorrelation(spec.n if n is None else int(n))
        if r is None:
            return self._unconstrained(spec, spec.n if n is None else int(n))
        return r

    def irfft(self, spec, n=None, axis=-1, **k):
        if not isinstance(spec, Spectrum):
            return _np.fft.irfft(spec, n=n, axis=axis, **k)
        if spec.kind != 'rfft' or (axis % len(spec.shape)) != spec.axis:
            raise Inconclusive('irfft of an fft spectrum / other axis')
        m = spec.n // 2 + 1
        n_out = 2 * (m - 1) if n is None else int(n)
        if n is None and ASSUME_IRFFT_INTENDED_LENGTH:
            n_out = spec.n   # 'K-corrected' environment used next to a listed finding: the inverse has the forward length
        r = spec.autocorrelation(n_out)
        if r is None:
            return self._unconstrained(spec, n_out)
        return r

    def _unconstrained(self, spec, n_out):
        """Inverse transform with a length different from the forward one: no contract -> fresh reals
        (over-approximation; any model is decided by the concrete replay)."""
        sh = list(spec.signal.shape)
        sh[spec.axis] = n_out
        out = _np.empty(tuple(sh), dtype=object)
        for idx in _np.ndindex(out.shape):
            out[idx] = core.fresh_real('ifft_len_mismatch')
        core.ctx().notes.append(f'inverse FFT length {n_out} != forward length {spec.n}: result unconstrained')
        return out.view(SymArray)

    def __getattr__(self, name):
        return getattr(_np.fft, name)


class _Linalg:
    def norm(self, x, ord=None, axis=None, keepdims=False):
        if has_sym(x):
            return _norm(x, ord=ord, axis=axis, keepdims=keepdims)
        return _np.linalg.norm(x, ord=ord, axis=axis, keepdims=keepdims)

    def __getattr__(self, n):
        return getattr(_np.linalg, n)


_INTERCEPTS = dict(
    mod=_mod, remainder=_mod, around=_around, round=_around, rint=_around, floor=_floor,
    ceil=_ceil, sqrt=_sqrt, sign=_sign, abs=_abs, absolute=_abs, square=_square, where=_where,
    nonzero=_nonzero, argwhere=_argwhere, min=_amin, max=_amax, amin=_amin, amax=_amax,
    any=_any, all=_all, std=_std, digitize=_digitize, histogram=_histogram,
    bincount=_bincount, unique=_unique, isnan=_isnan, log=_log, exp=_exp, nan_to_num=_nan_to_num,
    arcsin=_arcsin, arctan2=_arctan2, degrees=_degrees,
)
# creation functions: object arrays whenever a harness is active
_CREATION = dict(zeros=_zeros, ones=_ones, empty=_empty, full=_full,
                 zeros_like=_like(_np.zeros_like), ones_like=_like(_np.ones_like),
                 linspace=_linspace, arange=_arange, array=_array, asarray=_asarray)


class NPProxy:
    """Stands in for the module-global ``np`` of a module under test."""

    def __init__(self, extra=None):
        self.linalg = _Linalg()
        self.fft = _FFT()
        self.maximum = _UfuncProxy(_np.maximum, _maximum)
        self.minimum = _UfuncProxy(_np.minimum, _minimum)
        self._extra = dict(extra or {})
        self.calls = {}

    def __getattr__(self, name):
        if name in self._extra:
            return self._extra[name]
        if name in _CREATION:
            f = _CREATION[name]
            self.calls[name] = self.calls.get(name, 0) + 1
            return f
        real = getattr(_np, name)
        if name in _INTERCEPTS:
            ic = _INTERCEPTS[name]

            def dispatch(*a, **k):
                if has_sym(*a) or has_sym(*k.values()) or any(isinstance(v, Spectrum) for v in a):
                    self.calls[name] = self.calls.get(name, 0) + 1
                    return ic(*a, **k)
                return real(*a, **k)
            return dispatch
        if callable(real) and not isinstance(real, type):
            def fwd(*a, **k):
                return wrap(real(*a, **k))
            return fwd
        return real


# --------------------------------------------------------------------------- patching


class Patches:
    """Context manager: install module-global replacements and restore them afterwards."""

    def __init__(self):
        self._saved = []

    def set(self, obj, name, value):
        self._saved.append((obj, name, getattr(obj, name, _MISSING)))
        setattr(obj, name, value)

    def np(self, *modules, extra=None):
        proxies = []
        for m in modules:
            p = NPProxy(extra=extra)
            self.set(m, 'np', p)
            proxies.append(p)
        return proxies

    def __enter__(self):
        return self

    def __exit__(self, *exc):
        for obj, name, old in reversed(self._saved):
            if old is _MISSING:
                delattr(obj, name)
            else:
                setattr(obj, name, old)
        self._saved = []
        return False


_MISSING = object()


# --------------------------------------------------------------------------- concrete arrays indexed symbolically


def _concretise_key(k):
    if isinstance(k, SNum):
        return int(k)  # forks over feasible values (bisection)
    if isinstance(k, SBool):
        return bool(k)
    if isinstance(k, (list, tuple)) and has_sym(k):
        return type(k)(_concretise_key(v) for v in k)
    if isinstance(k, _np.ndarray) and k.dtype == object:
        return _np.array([_concretise_key(v) for v in k.ravel().tolist()]).reshape(k.shape)
    return k


class CArray(_np.ndarray):
    """Concrete (float/int) array that may be *indexed* by symbolic integers: the index is
    concretised by forking over its feasible values, then numpy indexes as usual."""

    def __getitem__(self, key):
        return super().__getitem__(_concretise_key(key))


class SitesProxy:
    """Wraps a concrete pymatgen Structure so that ``sites.frac_coords[[i, j]]`` accepts symbolic i, j."""

    def __init__(self, structure):
        self._s = structure

    @property
    def frac_coords(self):
        return _np.asarray(self._s.frac_coords).view(CArray)

    def __getattr__(self, n):
        return getattr(self._s, n)

    def __len__(self):
        return len(self._s)

    def __iter__(self):
        return iter(self._s)

    def __getitem__(self, i):
        return self._s[_concretise_key(i)]
