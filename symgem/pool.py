"""Concrete configuration pool (lattices, site sets, grids).  Enumerated, not symbolic:
every job names the pool member it uses; VERIF_SEED only adds extra members."""
from __future__ import annotations

import itertools
import math
from fractions import Fraction as F

import numpy as np


def _rot_z(c, s):
    return np.array([[c, -s, 0.0], [s, c, 0.0], [0.0, 0.0, 1.0]])


def _rot_axis180(u):
    u = np.array(u, dtype=float)
    u = u / np.linalg.norm(u)
    return 2 * np.outer(u, u) - np.eye(3)


def lattice_matrices():
    """name -> 3x3 row-vector lattice matrix (floats with short decimal expansions)."""
    from pymatgen.core import Lattice
    out = {}
    out['cubic5'] = np.eye(3) * 5.0
    out['ortho457'] = np.diag([4.0, 5.0, 7.0])
    out['hex558'] = np.round(Lattice.from_parameters(5, 5, 8, 90, 90, 120).matrix, 9)
    out['mono567b110'] = np.round(Lattice.from_parameters(5, 6, 7, 90, 110, 90).matrix, 9)
    # monoclinic with rational sin/cos (3-4-5 triangle): a along x, c tilted in the xz-plane
    out['mono345'] = np.array([[5.0, 0.0, 0.0], [0.0, 6.0, 0.0], [-4.2, 0.0, 5.6]])
    out['tric'] = np.round(Lattice.from_parameters(5, 6, 7, 80, 95, 105).matrix, 9)
    out['rhomb60'] = np.round(Lattice.from_parameters(6, 6, 6, 60, 60, 60).matrix, 9)
    rz = _rot_z(0.6, 0.8)
    r180 = _rot_axis180((2, 2, 1))
    out['cubic5_rotz'] = out['cubic5'] @ rz.T
    out['ortho457_rot180'] = out['ortho457'] @ r180.T
    out['hex558_rotz'] = np.round(out['hex558'] @ rz.T, 9)
    out['unit'] = np.eye(3)
    # two extra pseudo-random triclinic cells selected by VERIF_SEED (used by the thorough tier of the polynomial-identity jobs)
    import os
    seed = int(os.environ.get('VERIF_SEED', '0') or 0)
    out['rand_a'] = random_lattice(1000 + 2 * seed)
    out['rand_b'] = random_lattice(1001 + 2 * seed)
    return out


CORE_LATTICES = ['cubic5', 'ortho457', 'hex558', 'mono567b110', 'tric', 'cubic5_rotz']
ALL_LATTICES = ['cubic5', 'ortho457', 'hex558', 'mono567b110', 'mono345', 'tric', 'rhomb60', 'cubic5_rotz',
                'ortho457_rot180', 'hex558_rotz', 'unit']


def random_lattice(seed):
    rng = np.random.default_rng(seed)
    a, b, c = rng.uniform(4, 8, 3)
    al, be, ga = rng.uniform(65, 115, 3)
    from pymatgen.core import Lattice
    return np.round(Lattice.from_parameters(a, b, c, al, be, ga).matrix, 6)


def rat_matrix(m):
    return [[F(repr(float(v))) for v in row] for row in np.asarray(m)]


def metric(m):
    M = rat_matrix(m)
    return [[sum(M[i][k] * M[j][k] for k in range(3)) for j in range(3)] for i in range(3)]


def min_image_dist2(m, fa, fb, rng=2):
    """Brute-force squared minimum-image distance (independent concrete oracle, floats)."""
    m = np.asarray(m, dtype=float)
    d = np.asarray(fb, dtype=float) - np.asarray(fa, dtype=float)
    d = d - np.round(d)
    best = None
    for n in itertools.product(range(-rng, rng + 1), repeat=3):
        v = (d + np.array(n)) @ m
        q = float(v @ v)
        best = q if best is None else min(best, q)
    return best


def min_image_dist(m, fa, fb, rng=2):
    return math.sqrt(min_image_dist2(m, fa, fb, rng))


SITE_SETS = {
    # name: (frac coords, labels)
    'three': ([[0.1, 0.1, 0.1], [0.5, 0.5, 0.5], [0.9, 0.2, 0.7]], ['A', 'A', 'B']),
    'face': ([[0.0, 0.5, 0.5], [0.5, 0.0, 0.98], [0.97, 0.97, 0.03]], ['A', 'B', 'B']),
    'two': ([[0.25, 0.25, 0.25], [0.75, 0.75, 0.75]], ['A', 'B']),
    'four': ([[0.1, 0.1, 0.1], [0.6, 0.1, 0.1], [0.1, 0.6, 0.1], [0.95, 0.95, 0.95]], ['A', 'A', 'B', 'B']),
}


def structure(lattice_name, site_set, specie='Li'):
    from pymatgen.core import Lattice, Structure
    coords, labels = SITE_SETS[site_set]
    return Structure(Lattice(lattice_matrices()[lattice_name]), [specie] * len(coords), coords, labels=labels)
