"""Path-forking symbolic executor over z3 for running *unmodified* Python/numpy code.

The elements of numpy ``dtype=object`` arrays (and plain Python variables) are
``SNum``/``SBool`` values that wrap z3 terms.  ``bool(SBool)`` forks the path
(depth first, deterministic re-execution along a recorded trail).  Harnesses state
obligations with :func:`prove`; ``unsat`` of ``pc & ~phi`` discharges an obligation for
every input on that path, ``sat`` yields a concrete model that the runner replays on the
real code.  ``unknown`` is never read as a verdict.
"""
from __future__ import annotations

import time
from fractions import Fraction

import z3

# --------------------------------------------------------------------------- exceptions


class PathAbort(BaseException):
    """Current path is infeasible (assumption unsatisfiable)."""


class StopExploration(BaseException):
    """A counterexample was recorded; stop this job."""


class Inconclusive(BaseException):
    """Solver said unknown / budget exhausted / harness problem: never a pass."""


# --------------------------------------------------------------------------- context


class Ctx:
    def __init__(self, timeout_ms=60000, seed=0, max_paths=10**6, deadline=None):
        self.solver = z3.Solver()
        self.solver.set('timeout', timeout_ms)
        self.solver.set('random_seed', seed)
        self.trail = []  # [choice, done, free]; done == forced or already flipped
        self.pos = 0
        self.free = 0  # free (two-sided) decisions taken so far on the current path
        self.split = None  # (index, depth): explore only the subtree selected by the first `depth` free decisions
        self.max_paths = max_paths
        self.deadline = deadline
        self.inputs = {}  # name -> z3 const (registered per path)
        self.bounds = {}  # name -> declared domain constraints
        self.quotients = {}  # quotient symbol -> (numerator, denominator)
        self.quot_memo = []
        self.light = []  # path condition without cut facts (bounds, assumptions, decisions): used to sample path models
        self.stats = dict(
            paths=0, aborted=0, forks=0, forced=0, solver_calls=0, solver_s=0.0,
            obligations=0, discharged=0, trivial=0, sat=0, unsat=0, unknown=0,
            max_query_s=0.0,
        )
        self.cex = []  # unlisted counterexamples
        self.known_hits = {}  # finding id -> cex dict
        self.labels = {}  # obligation label -> count discharged
        self.path_models = []  # sampled models of completed paths (for trace validation)
        self.samples = []
        self.functions = {}  # functions encoded (qualified name -> sha)
        self.notes = []

    def check(self, *assumptions):
        t = time.time()
        r = self.solver.check(*assumptions)
        dt = time.time() - t
        st = self.stats
        st['solver_s'] += dt
        st['solver_calls'] += 1
        st['max_query_s'] = max(st['max_query_s'], dt)
        if r == z3.sat:
            st['sat'] += 1
        elif r == z3.unsat:
            st['unsat'] += 1
        else:
            st['unknown'] += 1
            raise Inconclusive(f'solver returned unknown ({self.solver.reason_unknown()}) after {dt:.1f}s')
        if self.deadline and time.time() > self.deadline:
            raise Inconclusive('job time budget exhausted')
        return r


CTX: Ctx | None = None


def ctx() -> Ctx:
    assert CTX is not None, 'no active exploration'
    return CTX


def active() -> bool:
    return CTX is not None


# --------------------------------------------------------------------------- forking


def fork(cond) -> bool:
    """Decide a symbolic boolean on the current path; returns a Python bool."""
    c = ctx()
    if isinstance(cond, bool):
        return cond
    cond = z3.simplify(cond)
    if z3.is_true(cond):
        return True
    if z3.is_false(cond):
        return False
    if c.pos < len(c.trail):
        choice, _, free = c.trail[c.pos]
        c.pos += 1
        if free:
            c.free += 1
        c.solver.add(cond if choice else z3.Not(cond))
        c.light.append(cond if choice else z3.Not(cond))
        return choice
    # invariant: the path condition is satisfiable
    if c.check(cond) == z3.unsat:
        c.trail.append([False, True, False])
        c.pos += 1
        c.stats['forced'] += 1
        c.solver.add(z3.Not(cond))
        c.light.append(z3.Not(cond))
        return False
    if c.check(z3.Not(cond)) == z3.unsat:
        c.trail.append([True, True, False])
        c.pos += 1
        c.stats['forced'] += 1
        c.solver.add(cond)
        c.light.append(cond)
        return True
    if c.split is not None and c.free < c.split[1]:
        # this free decision is fixed by the split index: the sibling subtree belongs to another job
        choice = bool((c.split[0] >> c.free) & 1)
        c.trail.append([choice, True, True])
        c.pos += 1
        c.free += 1
        c.stats['forks'] += 1
        c.solver.add(cond if choice else z3.Not(cond))
        c.light.append(cond if choice else z3.Not(cond))
        return choice
    c.trail.append([True, False, True])
    c.pos += 1
    c.free += 1
    c.stats['forks'] += 1
    c.solver.add(cond)
    c.light.append(cond)
    return True


def assume(cond):
    """Add an assumption; abort the path if it becomes infeasible."""
    c = ctx()
    cond = _bt(cond)
    cond = z3.simplify(cond)
    if z3.is_true(cond):
        return
    c.solver.add(cond)
    c.light.append(cond)
    if z3.is_false(cond) or c.check() == z3.unsat:
        raise PathAbort()


def _light_model(c):
    """Model of the path condition proper (declared domains, assumptions, branch decisions).  Cut facts are
    consequences of it and are left out, which keeps this query cheap; None if the solver gives up."""
    s = z3.Solver()
    s.set('timeout', 15000)
    for bs in c.bounds.values():
        s.add(*[b for b in bs if not _mentions_fresh(b)])
    s.add(*c.light)
    try:
        if s.check() == z3.sat:
            return s.model()
    except z3.Z3Exception:
        pass
    return None


def _mentions_fresh(t):
    names = {}
    _free_consts(t, names)
    return any('!' in n for n in names)


def explore(body, *, timeout_ms=60000, seed=0, max_paths=10**6, budget_s=None,
            sample_models=3, split=None):
    """Run ``body()`` on every feasible path.  Returns the context with statistics."""
    global CTX
    c = Ctx(timeout_ms=timeout_ms, seed=seed, max_paths=max_paths,
            deadline=(time.time() + budget_s) if budget_s else None)
    CTX = c
    c.split = split
    try:
        while True:
            c.solver.push()
            c.pos = 0
            c.free = 0
            c.inputs = {}
            c.light = []
            c.quot_memo = []
            c.quotients = {}
            c.transc = {'LOG': [], 'EXP': []}
            try:
                body()
                c.stats['paths'] += 1
                if len(c.path_models) < sample_models or c.stats['paths'] % 97 == 0:
                    if len(c.path_models) < 4 * sample_models:
                        m = _light_model(c)
                        if m is not None:
                            c.path_models.append(model_inputs(m))
            except PathAbort:
                c.stats['aborted'] += 1
            except StopExploration:
                c.solver.pop()
                break
            c.solver.pop()
            while c.trail and c.trail[-1][1]:
                c.trail.pop()
            if not c.trail:
                break
            if c.stats['paths'] + c.stats['aborted'] >= c.max_paths:
                raise Inconclusive(f'path budget {c.max_paths} exhausted')
            c.trail[-1] = [not c.trail[-1][0], True, c.trail[-1][2]]
    finally:
        CTX = None
    return c


# --------------------------------------------------------------------------- values


def rat(x) -> Fraction:
    """Exact rational reading of a Python/numpy number (floats by their shortest repr)."""
    if isinstance(x, Fraction):
        return x
    if isinstance(x, bool):
        return Fraction(int(x))
    if isinstance(x, int):
        return Fraction(x)
    try:
        import numpy as np
        if isinstance(x, np.integer):
            return Fraction(int(x))
        if isinstance(x, np.bool_):
            return Fraction(int(x))
    except ImportError:  # pragma: no cover
        pass
    f = float(x)
    if f != f or f in (float('inf'), float('-inf')):
        raise Inconclusive(f'non-finite float {f} entered REAL arithmetic')
    r = repr(f)
    digits = len(r.split('e')[0].replace('-', '').replace('.', '').lstrip('0'))
    if digits >= 15:
        return Fraction(f)   # a computed value: its exact binary value
    return Fraction(r)       # a literal-like value (0.1, 0.005, 2.5): the decimal it was written as


def _is_intlike(x):
    if isinstance(x, bool):
        return True
    if isinstance(x, int):
        return True
    try:
        import numpy as np
        return isinstance(x, (np.integer, np.bool_))
    except ImportError:  # pragma: no cover
        return False


class Sym:
    __slots__ = ('t',)

    def __init__(self, t):
        self.t = t

    def __repr__(self):
        return f'<{type(self).__name__} {self.t}>'


def _bt(o):
    """z3 Bool term of a SBool / bool."""
    if isinstance(o, SBool):
        return o.t
    if isinstance(o, z3.BoolRef):
        return o
    return z3.BoolVal(bool(o))


def mkb(t):
    t = z3.simplify(t)
    if z3.is_true(t):
        return True
    if z3.is_false(t):
        return False
    return SBool(t)


class SBool(Sym):
    __slots__ = ()

    def __bool__(self):
        return fork(self.t)

    def __and__(self, o):
        return mkb(z3.And(self.t, _bt(o)))

    __rand__ = __and__

    def __or__(self, o):
        return mkb(z3.Or(self.t, _bt(o)))

    __ror__ = __or__

    def __xor__(self, o):
        return mkb(z3.Xor(self.t, _bt(o)))

    __rxor__ = __xor__

    def __invert__(self):
        return mkb(z3.Not(self.t))

    def logical_not(self):
        return mkb(z3.Not(self.t))

    def __eq__(self, o):
        if isinstance(o, (SBool, bool)) or type(o).__name__ == 'bool_':
            return mkb(self.t == _bt(o))
        return self._num() == o

    def __ne__(self, o):
        if isinstance(o, (SBool, bool)) or type(o).__name__ == 'bool_':
            return mkb(self.t != _bt(o))
        return self._num() != o

    __hash__ = None

    def _num(self):
        return mk(z3.If(self.t, z3.IntVal(1), z3.IntVal(0)))

    # arithmetic on booleans (np.sum of masks, True + 1, ...)
    def __add__(self, o):
        return self._num() + o

    __radd__ = __add__

    def __sub__(self, o):
        return self._num() - o

    def __rsub__(self, o):
        return o - self._num()

    def __mul__(self, o):
        return self._num() * o

    __rmul__ = __mul__

    def __index__(self):
        return 1 if fork(self.t) else 0

    __int__ = __index__


def _zt(a):
    """z3 arithmetic term of a value (Int sort for ints, Real otherwise)."""
    if isinstance(a, SNum):
        return a.t
    if isinstance(a, SBool):
        return z3.If(a.t, z3.IntVal(1), z3.IntVal(0))
    if isinstance(a, z3.ArithRef):
        return a
    if _is_intlike(a):
        return z3.IntVal(int(a))
    f = rat(a)
    if f.denominator == 1 and isinstance(a, Fraction):
        return z3.RealVal(f.numerator)
    return z3.RealVal(str(f))


def _coerce(a, b):
    if a.sort() == b.sort():
        return a, b
    if a.sort() == z3.IntSort():
        a = z3.ToReal(a)
    if b.sort() == z3.IntSort():
        b = z3.ToReal(b)
    return a, b


def mk(t):
    """Wrap a z3 arithmetic/bool term; concrete values become Python int / Fraction / bool."""
    t = z3.simplify(t)
    if z3.is_int_value(t):
        return t.as_long()
    if z3.is_rational_value(t):
        return Fraction(t.numerator_as_long(), t.denominator_as_long())
    if z3.is_bool(t):
        if z3.is_true(t):
            return True
        if z3.is_false(t):
            return False
        return SBool(t)
    return SNum(t)


def _supported(o):
    return isinstance(o, (SNum, SBool, Fraction, int, float)) or _is_intlike(o) or \
        type(o).__module__ == 'numpy' and getattr(o, 'ndim', 1) == 0 and getattr(o, 'dtype', None) is not None and o.dtype.kind in 'iufb'


INDEX_RANGE = (-16, 255)


class SNum(Sym):
    """Symbolic number: mathematical integer (z3 Int) or real (z3 Real)."""
    __slots__ = ()

    @property
    def is_int(self):
        return self.t.sort() == z3.IntSort()

    def _bin(self, o, f, rev=False):
        if not _supported(o):
            return NotImplemented
        a, b = _coerce(self.t, _zt(o))
        if rev:
            a, b = b, a
        return mk(f(a, b))

    def __add__(self, o):
        return self._bin(o, lambda a, b: a + b)

    __radd__ = __add__

    def __sub__(self, o):
        return self._bin(o, lambda a, b: a - b)

    def __rsub__(self, o):
        return self._bin(o, lambda a, b: a - b, rev=True)

    def __mul__(self, o):
        return self._bin(o, lambda a, b: a * b)

    __rmul__ = __mul__

    def __truediv__(self, o):
        if not _supported(o):
            return NotImplemented
        a = self.t if not self.is_int else z3.ToReal(self.t)
        b = _zt(o)
        b = b if b.sort() == z3.RealSort() else z3.ToReal(b)
        return _divide(a, b)

    def __rtruediv__(self, o):
        if not _supported(o):
            return NotImplemented
        b = self.t if not self.is_int else z3.ToReal(self.t)
        a = _zt(o)
        a = a if a.sort() == z3.RealSort() else z3.ToReal(a)
        return _divide(a, b)

    def __floordiv__(self, o):
        if not _supported(o):
            return NotImplemented
        a, b = _coerce(self.t, _zt(o))
        if a.sort() == z3.IntSort():
            if isinstance(o, SNum) or int(o) <= 0:
                raise Inconclusive('floordiv by symbolic/non-positive divisor not modelled')
            return mk(a / b)  # z3 int div == floor for positive divisor
        return mk(z3.ToReal(z3.ToInt(a / b)))

    def __rfloordiv__(self, o):
        a, b = _coerce(_zt(o), self.t)
        if a.sort() == z3.IntSort():
            raise Inconclusive('floordiv by symbolic int divisor not modelled')
        return sfloor(_divide(a, b))   # quotient symbol with its defining fact, then floor

    def __mod__(self, m):
        if not _supported(m):
            return NotImplemented
        if isinstance(m, SNum):
            raise Inconclusive('mod by symbolic modulus not modelled')
        if self.is_int and _is_intlike(m):
            if int(m) <= 0:
                raise Inconclusive('mod by non-positive modulus not modelled')
            return mk(self.t % z3.IntVal(int(m)))
        mm = rat(m)
        if mm <= 0:
            raise Inconclusive('mod by non-positive modulus not modelled')
        if FLOOR_FORK and not self.is_int:
            return self - sfloor(self / mm) * mm
        a = self.t if not self.is_int else z3.ToReal(self.t)
        q = z3.ToInt(a / z3.RealVal(str(mm)))
        return mk(a - z3.ToReal(q) * z3.RealVal(str(mm)))

    def __neg__(self):
        return mk(-self.t)

    def __pos__(self):
        return self

    def __abs__(self):
        return mk(z3.If(self.t >= 0, self.t, -self.t))

    def __pow__(self, n):
        if isinstance(n, (SNum,)):
            return NotImplemented
        if _is_intlike(n) or rat(n).denominator == 1:
            n = int(rat(n))
            if n == 0:
                return 1
            if n < 0:
                return 1 / (self ** (-n))
            r = self
            for _ in range(n - 1):
                r = r * self
            return r
        if rat(n) == Fraction(1, 2):
            return self.sqrt()
        return NotImplemented

    def __rpow__(self, b):
        return NotImplemented

    def _cmp(self, o, f):
        if not _supported(o):
            return NotImplemented
        if isinstance(o, float) and o in (float('inf'), float('-inf')):
            return bool(f(0.0, o))  # every real compares with +-inf like 0 does
        a, b = _coerce(self.t, _zt(o))
        return mkb(f(a, b))

    def __eq__(self, o):
        if o is None or isinstance(o, str):
            return False
        return self._cmp(o, lambda a, b: a == b)

    def __ne__(self, o):
        if o is None or isinstance(o, str):
            return True
        return self._cmp(o, lambda a, b: a != b)

    def __lt__(self, o):
        return self._cmp(o, lambda a, b: a < b)

    def __le__(self, o):
        return self._cmp(o, lambda a, b: a <= b)

    def __gt__(self, o):
        return self._cmp(o, lambda a, b: a > b)

    def __ge__(self, o):
        return self._cmp(o, lambda a, b: a >= b)

    # ---- concretisation (forks over feasible values; deterministic bisection) ----
    def __index__(self):
        if not self.is_int:
            raise Inconclusive('index() of a symbolic real')
        return concretize(self.t)

    def __int__(self):
        if self.is_int:
            return concretize(self.t)
        v = strunc_int(self)   # int() of a real truncates toward zero
        return v if not isinstance(v, SNum) else concretize(v.t)

    def __hash__(self):
        return hash(self.__index__())

    def __float__(self):
        raise Inconclusive('float() of a symbolic value (a C boundary was reached): ' + str(self.t)[:80])

    def __bool__(self):
        return fork(self.t != 0)

    # ---- numpy object-ufunc hooks ----
    def floor(self):
        return sfloor(self)

    def rint(self):
        return srint(self)

    def __round__(self, n=None):
        return srint(self)

    def __floor__(self):
        return sfloor(self)

    def sqrt(self):
        return ssqrt(self)

    def conjugate(self):
        return self

    @property
    def real(self):
        return self

    @property
    def imag(self):
        return 0


def _divide(a, b):
    """a / b.  A constant divisor stays a z3 division (linear); a symbolic divisor becomes a fresh quotient
    symbol q with the defining fact  b != 0 -> q * b == a  (z3's own division by a term is not dependable).
    The definition is remembered so that harnesses can state obligations on numerator and denominator."""
    b = z3.simplify(b)
    if z3.is_rational_value(b) or z3.is_int_value(b):
        return mk(a / b)
    c = ctx()
    a = z3.simplify(a)
    for (a0, b0, q0) in c.quot_memo:  # the same division yields the same quotient symbol
        if a0.eq(a) and b0.eq(b):
            return SNum(q0)
    q = z3.FreshReal('quot')
    c.quot_memo.append((a, b, q))
    fact = z3.Implies(b != 0, q * b == a)
    c.solver.add(fact)
    c.bounds[q.decl().name()] = [fact]
    c.quotients[q.decl().name()] = (mk(a), mk(b))
    return SNum(q)


def quotient_parts(x):
    """(numerator, denominator) if x is a quotient symbol introduced by a symbolic division, else None."""
    if isinstance(x, SNum) and z3.is_const(x.t):
        return ctx().quotients.get(x.t.decl().name())
    return None


def concretize(t, lo=None, hi=None):
    lo0, hi0 = INDEX_RANGE if lo is None else (lo, hi)
    lo, hi = lo0, hi0
    if not fork(z3.And(t >= lo, t <= hi)):
        raise Inconclusive(f'symbolic integer outside concretisation range {lo0}..{hi0}: {t}')
    while lo < hi:
        mid = (lo + hi) // 2
        if fork(t <= mid):
            hi = mid
        else:
            lo = mid + 1
    return lo


def ite(c, a, b):
    """Merge instead of fork: If-term."""
    if isinstance(c, bool) or type(c).__name__ == 'bool_':
        return a if c else b
    ct = _bt(c)
    if isinstance(a, (bool, SBool)) and isinstance(b, (bool, SBool)):
        return mkb(z3.If(ct, _bt(a), _bt(b)))
    x, y = _coerce(_zt(a), _zt(b))
    return mk(z3.If(ct, x, y))


def _real(x):
    t = _zt(x)
    return t if t.sort() == z3.RealSort() else z3.ToReal(t)


FLOOR_FORK = False  # decide floor()/rint() of a symbolic real by forking on its (small) integer value instead of a ToInt term


def _fork_int_part(x, lo_of, hi_of, what):
    """Smallest-magnitude-first search for the integer k with lo_of(k) <= ... (forks; conditions are linear in x)."""
    for k in (0, 1, -1, 2, -2, 3, -3, 4, -4):
        if bool(lo_of(k)):
            return k
    raise Inconclusive(f'{what}: integer part outside [-4, 4]')


def sfloor(x):
    """floor as a real-valued number (numpy returns float for float input)."""
    if isinstance(x, SNum):
        if x.is_int:
            return x
        if FLOOR_FORK:
            return _fork_int_part(x, lambda k: (x >= k) & (x < k + 1), None, 'floor')
        return mk(z3.ToReal(z3.ToInt(x.t)))
    f = rat(x)
    return Fraction(f.numerator // f.denominator)


def sfloor_int(x):
    if isinstance(x, SNum):
        if x.is_int:
            return x
        if FLOOR_FORK:
            return sfloor(x)
        return mk(z3.ToInt(x.t))
    f = rat(x)
    return f.numerator // f.denominator


def strunc_int(x):
    """C-style truncation toward zero to an integer (``astype(int)``)."""
    if hasattr(x, 'trunc_int'):
        return x.trunc_int()
    if isinstance(x, SNum):
        if x.is_int:
            return x
        fl = z3.ToInt(x.t)
        return mk(z3.If(z3.Or(x.t >= 0, z3.ToReal(fl) == x.t), fl, fl + 1))
    if _is_intlike(x):
        return int(x)
    f = rat(x)
    return int(f)  # Fraction -> int truncates toward zero


def srint(x):
    """Round half to even (numpy around/rint), real-valued result."""
    if type(x).__name__ == 'SF64':
        return x.rint()
    if isinstance(x, SNum):
        if x.is_int:
            return x
        if FLOOR_FORK:
            h = Fraction(1, 2)
            return _fork_int_part(
                x, lambda k: ((x > k - h) & (x < k + h)) | ((x == k - h) | (x == k + h) if k % 2 == 0 else False), None, 'rint')
        f = z3.ToInt(x.t)
        fr = x.t - z3.ToReal(f)
        half = z3.RealVal('1/2')
        r = z3.If(fr < half, f, z3.If(fr > half, f + 1, z3.If(f % 2 == 0, f, f + 1)))
        return mk(z3.ToReal(r))
    if _is_intlike(x):
        return int(x)
    return Fraction(round(rat(x)))


SQRT_AXIOMS = True


def ssqrt(x):
    """Exact square root as a fresh non-negative real s with s*s == x (NRA)."""
    if not isinstance(x, SNum):
        f = rat(x)
        if f < 0:
            raise Inconclusive('sqrt of negative concrete')
        import math
        n, d = math.isqrt(f.numerator), math.isqrt(f.denominator)
        if n * n == f.numerator and d * d == f.denominator:
            return Fraction(n, d)
        c = ctx()
        s = z3.FreshReal('sqrt')
        xt = z3.RealVal(str(f))
    else:
        c = ctx()
        xt = _real(x)
        s = z3.FreshReal('sqrt')
    c.solver.add(s >= 0, s * s == xt)
    c.bounds[s.decl().name()] = [s >= 0, s * s == xt]
    return SNum(s)


# --------------------------------------------------------------------------- inputs


def _register(name, t):
    c = ctx()
    c.inputs[name] = t
    return t


def sym_int(name, lo=None, hi=None):
    t = _register(name, z3.Int(name))
    c = ctx()
    bs = []
    if lo is not None:
        bs.append(t >= lo)
    if hi is not None:
        bs.append(t <= hi)
    c.solver.add(*bs)
    c.bounds[name] = bs
    return SNum(t)


def sym_real(name, lo=None, hi=None, lo_strict=False, hi_strict=False):
    t = _register(name, z3.Real(name))
    c = ctx()
    bs = []
    if lo is not None:
        l = z3.RealVal(str(rat(lo)))
        bs.append(t > l if lo_strict else t >= l)
    if hi is not None:
        h = z3.RealVal(str(rat(hi)))
        bs.append(t < h if hi_strict else t <= h)
    c.solver.add(*bs)
    c.bounds[name] = bs
    return SNum(t)


def sym_bool(name):
    t = _register(name, z3.Bool(name))
    return SBool(t)


def fresh_real(prefix='cut'):
    return SNum(z3.FreshReal(prefix))


def fresh_int(prefix='cut'):
    return SNum(z3.FreshInt(prefix))


def cut_symbol(sym, facts):
    """Attach proved facts to a fresh cut symbol: asserted on the path and remembered as its declared domain,
    so isolated proofs that mention the symbol see them."""
    c = ctx()
    fs = [_bt(f) for f in facts]
    c.solver.add(*fs)
    c.bounds.setdefault(sym.t.decl().name(), []).extend(fs)
    return sym


def fresh_bool(prefix='cut'):
    return SBool(z3.FreshBool(prefix))


# --------------------------------------------------------------------------- models


def _val(v):
    if z3.is_int_value(v):
        return v.as_long()
    if z3.is_rational_value(v):
        return Fraction(v.numerator_as_long(), v.denominator_as_long())
    if z3.is_true(v):
        return True
    if z3.is_false(v):
        return False
    if z3.is_algebraic_value(v):
        a = v.approx(30)
        return Fraction(a.numerator_as_long(), a.denominator_as_long())
    if z3.is_fp(v) or z3.is_bv_value(v):
        from .fp import fp_model_value
        return fp_model_value(v)
    raise Inconclusive(f'cannot read model value {v}')


def model_inputs(model):
    c = ctx()
    return {n: _val(model.eval(t, model_completion=True)) for n, t in c.inputs.items()}


def evalm(model, x):
    """Evaluate a (possibly symbolic, possibly nested) value under a model."""
    import numpy as np
    if isinstance(x, Sym):
        return _val(model.eval(x.t, model_completion=True))
    if isinstance(x, np.ndarray):
        if x.dtype != object:
            return x
        out = np.empty(x.shape, dtype=object)
        for idx in np.ndindex(x.shape):
            out[idx] = evalm(model, x[idx])
        return out
    if isinstance(x, (list, tuple)):
        return type(x)(evalm(model, v) for v in x)
    if isinstance(x, dict):
        return {k: evalm(model, v) for k, v in x.items()}
    return x


def jsonable(x):
    import numpy as np
    if isinstance(x, Fraction):
        return x.numerator if x.denominator == 1 else f'{x.numerator}/{x.denominator}'
    if isinstance(x, (bool, int, str)) or x is None:
        return x
    if isinstance(x, float):
        return x
    if isinstance(x, (np.integer,)):
        return int(x)
    if isinstance(x, (np.floating,)):
        return float(x)
    if isinstance(x, np.bool_):
        return bool(x)
    if isinstance(x, np.ndarray):
        return [jsonable(v) for v in x.tolist()]
    if isinstance(x, (list, tuple)):
        return [jsonable(v) for v in x]
    if isinstance(x, dict):
        return {str(k): jsonable(v) for k, v in x.items()}
    return str(x)


def unjson_num(x):
    if isinstance(x, str) and '/' in x:
        return Fraction(x)
    return x


# --------------------------------------------------------------------------- obligations


def prove(label, phi, known=None, detail=None):
    """Obligation: ``phi`` must hold for every input of the current path.

    ``known = (finding_id, K)``: a listed finding with input-class predicate ``K``
    (z3 Bool / SBool / bool).  Then ``pc & ~phi & ~K`` must be unsat (anything else is
    an *unlisted* violation) and a model of ``pc & ~phi & K`` is recorded for replay.
    """
    c = ctx()
    c.stats['obligations'] += 1
    p = _bt(phi)
    p = z3.simplify(p)
    if z3.is_true(p):
        c.stats['trivial'] += 1
        c.stats['discharged'] += 1
        c.labels[label] = c.labels.get(label, 0) + 1
        return True
    neg = z3.Not(p)
    if known is not None:
        fid, K = known
        K = _bt(K)
        if c.check(z3.And(neg, z3.Not(K))) == z3.sat:
            _record_cex(label, detail, unlisted=True)
            raise StopExploration()
        if fid not in c.known_hits and c.check(z3.And(neg, K)) == z3.sat:
            c.known_hits[fid] = _cex(label, detail)
        c.labels[label] = c.labels.get(label, 0) + 1
        c.stats['discharged'] += 1
        return True
    if c.check(neg) == z3.sat:
        _record_cex(label, detail, unlisted=True)
        raise StopExploration()
    c.stats['discharged'] += 1
    c.labels[label] = c.labels.get(label, 0) + 1
    return True


def _free_consts(t, acc):
    seen = set()
    stack = [t]
    while stack:
        e = stack.pop()
        if e.get_id() in seen:
            continue
        seen.add(e.get_id())
        if z3.is_const(e) and e.decl().kind() == z3.Z3_OP_UNINTERPRETED:
            acc[e.decl().name()] = e
        else:
            stack.extend(e.children())
    return acc


def prove_isolated(label, phi, given=(), known=None, detail=None, timeout_ms=20000):
    """Like :func:`prove`, but first tries a fresh solver that only holds the declared domains of the
    variables occurring in ``phi``/``given`` plus ``given`` (fewer assumptions => a stronger statement, so
    unsat there discharges the obligation).  Anything else falls back to the full path-condition query."""
    c = ctx()
    p = z3.simplify(_bt(phi))
    if z3.is_true(p):
        return prove(label, True)
    gs = [_bt(g) for g in given]
    names = {}
    _free_consts(p, names)
    for g in gs:
        _free_consts(g, names)
    s = z3.Solver()
    s.set('timeout', timeout_ms)
    for n in names:
        for b in c.bounds.get(n, []):
            s.add(b)
    s.add(*gs)
    s.add(z3.Not(p))
    t = time.time()
    r = s.check()
    dt = time.time() - t
    c.stats['solver_calls'] += 1
    c.stats['solver_s'] += dt
    c.stats['max_query_s'] = max(c.stats['max_query_s'], dt)
    def _done():
        c.stats['unsat'] += 1
        c.stats['obligations'] += 1
        c.stats['discharged'] += 1
        c.labels[label] = c.labels.get(label, 0) + 1
        c.stats['isolated'] = c.stats.get('isolated', 0) + 1
        return True
    if r == z3.unsat:
        return _done()
    if known is None:
        # second attempt: the path condition proper (domains, assumptions, decisions) without the accumulated cut facts
        s2 = z3.Solver()
        s2.set('timeout', timeout_ms)
        for n, bs in c.bounds.items():
            if '!' not in n or n in names:
                s2.add(*bs)
        s2.add(*c.light)
        s2.add(*gs)
        s2.add(z3.Not(p))
        t = time.time()
        r2 = s2.check()
        dt = time.time() - t
        c.stats['solver_calls'] += 1
        c.stats['solver_s'] += dt
        c.stats['max_query_s'] = max(c.stats['max_query_s'], dt)
        if r2 == z3.unsat:
            return _done()
        if r2 == z3.sat:
            c.stats['sat'] += 1
            c.stats['obligations'] += 1
            m = s2.model()
            d = dict(label=label, inputs=model_inputs(m))
            if detail is not None:
                d['detail'] = jsonable(evalm(m, detail))
            c.cex.append(d)
            raise StopExploration()
    return prove(label, phi, known=known, detail=detail)


def _cex(label, detail):
    c = ctx()
    m = c.solver.model()
    d = dict(label=label, inputs=model_inputs(m))
    if detail is not None:
        d['detail'] = jsonable(evalm(m, detail))
    return d


def _record_cex(label, detail, unlisted):
    c = ctx()
    c.cex.append(_cex(label, detail))


def event(label, detail=None, known=None):
    """An unexpected event on a feasible path (e.g. an undocumented exception)."""
    c = ctx()
    c.stats['obligations'] += 1
    if known is not None:
        fid, K = known
        K = _bt(K)
        if c.check(z3.Not(K)) == z3.sat:
            c.cex.append(_cex(label, detail))
            raise StopExploration()
        if fid not in c.known_hits:
            c.check()
            c.known_hits[fid] = _cex(label, detail)
        return
    c.check()
    c.cex.append(_cex(label, detail))
    raise StopExploration()


def sample(obj):
    c = ctx()
    if len(c.samples) < 3:
        c.samples.append(obj)


def conj(xs):
    ts = [_bt(x) for x in xs]
    if not ts:
        return True
    return mkb(z3.And(*ts))


def disj(xs):
    ts = [_bt(x) for x in xs]
    if not ts:
        return False
    return mkb(z3.Or(*ts))


def implies(a, b):
    return mkb(z3.Implies(_bt(a), _bt(b)))


def ssum(xs):
    r = 0
    for x in xs:
        r = r + x
    return r


def smin(xs):
    xs = list(xs)
    r = xs[0]
    for x in xs[1:]:
        r = ite(x < r, x, r)
    return r


def smax(xs):
    xs = list(xs)
    r = xs[0]
    for x in xs[1:]:
        r = ite(x > r, x, r)
    return r


def is_sym(x):
    return isinstance(x, Sym)


# --------------------------------------------------------------------------- distances by their square


class SRoot(Sym):
    """A non-negative real given by its square ``q`` (SNum / Fraction): comparisons and
    ``**2`` stay polynomial (no sqrt in the solver); any other arithmetic materialises a
    fresh real s with s >= 0, s*s == q."""
    __slots__ = ('q', '_s')

    def __init__(self, q):
        self.q = q
        self._s = None
        self.t = None

    def __repr__(self):
        return f'<SRoot sqrt({self.q})>'

    def val(self):
        if self._s is None:
            self._s = ssqrt(self.q)
        return self._s

    @staticmethod
    def _sq(o):
        if isinstance(o, SRoot):
            return o.q, None
        if isinstance(o, SNum):
            return o * o, o >= 0
        f = rat(o)
        return f * f, f >= 0

    def _cmp(self, o, op):
        if isinstance(o, float) and o in (float('inf'), float('-inf')):
            return {'lt': 0.0 < o, 'le': 0.0 <= o, 'gt': 0.0 > o, 'ge': 0.0 >= o}[op]
        oq, nonneg = self._sq(o)
        if nonneg is None or nonneg is True:
            return {'lt': self.q < oq, 'le': self.q <= oq, 'gt': self.q > oq, 'ge': self.q >= oq}[op]
        if nonneg is False:  # comparing a distance with a negative number
            return {'lt': False, 'le': False, 'gt': True, 'ge': True}[op]
        pos = {'lt': self.q < oq, 'le': self.q <= oq, 'gt': self.q > oq, 'ge': self.q >= oq}[op]
        neg = {'lt': False, 'le': False, 'gt': True, 'ge': True}[op]
        return ite(nonneg, pos, neg)

    def __lt__(self, o):
        return self._cmp(o, 'lt')

    def __le__(self, o):
        return self._cmp(o, 'le')

    def __gt__(self, o):
        return self._cmp(o, 'gt')

    def __ge__(self, o):
        return self._cmp(o, 'ge')

    def __eq__(self, o):
        if isinstance(o, SRoot):
            return self.q == o.q
        if isinstance(o, (SNum, Fraction, int, float)) or _is_intlike(o):
            oq, nonneg = self._sq(o)
            return conj([self.q == oq, True if nonneg is None else nonneg])
        return False

    def __ne__(self, o):
        e = self.__eq__(o)
        return ~e if isinstance(e, SBool) else (not e)

    __hash__ = None

    def __pow__(self, n):
        if _is_intlike(n) and int(n) == 2 or (not isinstance(n, Sym) and rat(n) == 2):
            return self.q
        return self.val() ** n

    def __mul__(self, o):
        if o is self:
            return self.q
        if isinstance(o, SRoot):
            o = o.val()
        return self.val() * o

    __rmul__ = __mul__

    def __add__(self, o):
        return self.val() + (o.val() if isinstance(o, SRoot) else o)

    __radd__ = __add__

    def __sub__(self, o):
        return self.val() - (o.val() if isinstance(o, SRoot) else o)

    def __rsub__(self, o):
        return (o.val() if isinstance(o, SRoot) else o) - self.val()

    def __truediv__(self, o):
        return self.val() / (o.val() if isinstance(o, SRoot) else o)

    def __rtruediv__(self, o):
        return (o.val() if isinstance(o, SRoot) else o) / self.val()

    def __neg__(self):
        return -self.val()

    def __abs__(self):
        return self

    def sqrt(self):
        return ssqrt(self.val())


_ite_plain = ite


def ite(c, a, b):  # noqa: F811  (extends the scalar ite with SRoot / float64 operands)
    if type(a).__name__ in ('SF64', 'SBV64') or type(b).__name__ in ('SF64', 'SBV64'):
        if isinstance(c, bool) or type(c).__name__ == 'bool_':
            return a if c else b
        from .fp import SF64, SBV64, fpval
        if type(a).__name__ == 'SBV64' and type(b).__name__ == 'SBV64':
            return SBV64(z3.If(_bt(c), a.t, b.t))
        return SF64(z3.simplify(z3.If(_bt(c), fpval(a), fpval(b))))
    if isinstance(a, SRoot) or isinstance(b, SRoot):
        if isinstance(c, bool) or type(c).__name__ == 'bool_':
            return a if c else b
        qa = a.q if isinstance(a, SRoot) else a * a
        qb = b.q if isinstance(b, SRoot) else b * b
        return SRoot(_ite_plain(c, qa, qb))
    return _ite_plain(c, a, b)


# --------------------------------------------------------------------------- second back end: cvc5 (QF_BVFP kernels)


def _cvc5_run(smt, timeout_ms):
    import cvc5
    tm = cvc5.TermManager()
    slv = cvc5.Solver(tm)
    slv.setOption('tlimit-per', str(int(timeout_ms)))
    slv.setOption('produce-models', 'true')
    parser = cvc5.InputParser(slv)
    parser.setStringInput(cvc5.InputLanguage.SMT_LIB_2_6, smt, 'query')
    sm = parser.getSymbolManager()
    outs = []
    while True:
        cmd = parser.nextCommand()
        if cmd.isNull():
            break
        o = cmd.invoke(slv, sm)
        if o.strip():
            outs.append(o.strip())
    return outs


def _parse_cvc5_value(txt):
    """'(fp #b0 #b... #b...)' / '#b...' / '#x...' / '(_ bvN 64)' -> python float / int (signed 64)."""
    import re
    import struct
    txt = txt.strip()
    m = re.match(r'\(fp\s+#b([01])\s+#b([01]+)\s+#b([01]+)\)', txt)
    if m:
        bits = int(m.group(1) + m.group(2) + m.group(3), 2)
        return struct.unpack('>d', bits.to_bytes(8, 'big'))[0]
    if txt.startswith('#b'):
        v, w = int(txt[2:], 2), len(txt) - 2
    elif txt.startswith('#x'):
        v, w = int(txt[2:], 16), 4 * (len(txt) - 2)
    else:
        m = re.match(r'\(_\s+bv(\d+)\s+(\d+)\)', txt)
        if not m:
            if '+zero' in txt:
                return 0.0
            if '-zero' in txt:
                return -0.0
            raise Inconclusive(f'cannot parse cvc5 value {txt}')
        v, w = int(m.group(1)), int(m.group(2))
    return v - (1 << w) if v >= (1 << (w - 1)) else v


def prove_cvc5(label, phi, given=(), timeout_ms=300000, detail=None):
    """Obligation decided by cvc5 (python wheel) on an isolated query: declared domains of the variables that
    occur + ``given`` + NOT phi, exported as SMT-LIB2.  unsat -> discharged; sat -> model read back, recorded as a
    counterexample (replayed by the runner); anything else -> inconclusive."""
    c = ctx()
    p = z3.simplify(_bt(phi))
    if z3.is_true(p):
        return prove(label, True)
    gs = [_bt(g) for g in given]
    names = {}
    _free_consts(p, names)
    for g in gs:
        _free_consts(g, names)
    s = z3.Solver()
    for n in names:
        for b in c.bounds.get(n, []):
            s.add(b)
    s.add(*gs)
    s.add(z3.Not(p))
    smt = '(set-logic ALL)\n(set-option :produce-models true)\n' + s.to_smt2()
    inputs = [n for n in c.inputs if n in names]
    if inputs:
        smt += '\n'.join(f'(get-value ({n}))' for n in inputs) + '\n'
    t = time.time()
    try:
        outs = _cvc5_run(smt, timeout_ms)
    except Exception as e:  # sat without model support etc.
        outs = [f'error {e}']
    dt = time.time() - t
    c.stats['solver_calls'] += 1
    c.stats['solver_s'] += dt
    c.stats['max_query_s'] = max(c.stats['max_query_s'], dt)
    c.stats['cvc5'] = c.stats.get('cvc5', 0) + 1
    verdict = outs[0] if outs else 'unknown'
    c.stats['obligations'] += 1
    if verdict == 'unsat':
        c.stats['unsat'] += 1
        c.stats['discharged'] += 1
        c.labels[label] = c.labels.get(label, 0) + 1
        return True
    if verdict == 'sat':
        c.stats['sat'] += 1
        vals = {}
        for n, o in zip(inputs, outs[1:]):
            inner = o.strip()[1:-1].strip()  # ((name value)) -> (name value)
            inner = inner[1:-1].strip()
            vals[n] = _parse_cvc5_value(inner[len(n):].strip())
        full = {n: vals.get(n, 0) for n in c.inputs}
        c.cex.append(dict(label=label, inputs=full))
        raise StopExploration()
    c.stats['unknown'] += 1
    raise Inconclusive(f'cvc5 returned {verdict[:80]} after {dt:.1f}s on "{label}"')
