import argparse
import os
import sys


def main():
    if len(sys.argv) > 1 and sys.argv[1] == 'replay':
        from .runner import replay_file
        sys.exit(replay_file(sys.argv[2]))
    ap = argparse.ArgumentParser()
    ap.add_argument('prop')
    ap.add_argument('--tier', default=os.environ.get('VERIF_TIER', 'quick'))
    ap.add_argument('--only', default=None)
    ap.add_argument('-v', action='store_true')
    a = ap.parse_args()
    if a.v:
        os.environ['VERIF_VERBOSE'] = '1'
    seed = int(os.environ.get('VERIF_SEED', '0') or 0)
    from .runner import run_check
    sys.exit(run_check(a.prop.upper(), a.tier, seed, only=a.only))


if __name__ == '__main__':
    main()
