"""Transcendental functions as uninterpreted functions with instantiated axioms, and the
extended reals np.log produces at 0 (REAL mode)."""
from __future__ import annotations

from fractions import Fraction

import z3

from . import core
from .core import SBool, SNum, Sym, conj, ite, mk, mkb, rat

PAIRWISE = True   # instantiate strict monotonicity against every earlier argument (quadratic in the number of arguments)
LOG = z3.Function('LOG', z3.RealSort(), z3.RealSort())
EXP = z3.Function('EXP', z3.RealSort(), z3.RealSort())
MAXF = Fraction(int(float.fromhex('0x1.fffffffffffffp+1023')))  # largest finite binary64


def _args(kind):
    c = core.ctx()
    if not hasattr(c, 'transc'):
        c.transc = {'LOG': [], 'EXP': []}
    return c.transc[kind]


def _facts(*fs):
    c = core.ctx()
    for f in fs:
        c.solver.add(f)
        c.light.append(f)


def slog_term(v):
    """LOG(v) for a real term v (> 0 is the caller's business); instantiates the axioms for this argument."""
    t = core._real(v)
    args = _args('LOG')
    for a in args:
        if a.eq(t):
            return SNum(LOG(t))
    one = z3.RealVal(1)
    fs = [z3.Implies(t > 0, LOG(t) <= t - 1),                       # ln x <= x - 1
          z3.Implies(t > 0, EXP(LOG(t)) == t),
          z3.Implies(t == one, LOG(t) == 0),
          z3.Implies(t >= z3.RealVal('1/1000000000000'), LOG(t) >= z3.RealVal('-28')),   # ln 1e-12 > -27.7
          z3.Implies(t >= z3.RealVal('1/1000000'), LOG(t) >= z3.RealVal('-14')),
          z3.Implies(t >= z3.RealVal('1/' + '1' + '0' * 24), LOG(t) >= z3.RealVal('-56'))]   # ln 1e-24 > -55.3
    for a in args:  # strict monotonicity against every earlier argument
        fs.append(z3.Implies(z3.And(a > 0, t > 0, a < t), LOG(a) < LOG(t)))
        fs.append(z3.Implies(z3.And(a > 0, t > 0, t < a), LOG(t) < LOG(a)))
    _facts(*fs)
    args.append(t)
    return SNum(LOG(t))


def sexp(v):
    if isinstance(v, SX):
        raise core.Inconclusive('exp of a non-finite value')
    if not isinstance(v, Sym):
        f = rat(v)
        if f == 0:
            return 1
    t = core._real(v)
    args = _args('EXP')
    for a in args:
        if a.eq(t):
            return SNum(EXP(t))
    fs = [EXP(t) > 0, EXP(t) >= t + 1, z3.Implies(t == 0, EXP(t) == 1),
          z3.Implies(t <= 1, EXP(t) <= z3.RealVal('272/100')), z3.Implies(t <= 0, EXP(t) <= 1)]   # e < 2.72
    for a in (args if PAIRWISE else []):
        fs.append(z3.Implies(a < t, EXP(a) < EXP(t)))
        fs.append(z3.Implies(t < a, EXP(t) < EXP(a)))
    _facts(*fs)
    args.append(t)
    return SNum(EXP(t))


class SX(Sym):
    """Extended real: kind 0 finite (value val), +1 = +inf, -1 = -inf, 2 = nan."""
    __slots__ = ('kind', 'val')

    def __init__(self, kind, val):
        self.kind, self.val, self.t = kind, val, None

    def _scale(self, c, rev=False):
        if isinstance(c, SX):
            raise core.Inconclusive('product of two non-finite values')
        k = self.kind
        nk = ite(k == 0, 0, ite(c == 0, 2, ite(k == 2, 2, ite(c > 0, k, -k))))
        return SX(nk, self.val * c)

    def __mul__(self, c):
        return self._scale(c)

    __rmul__ = __mul__

    def __neg__(self):
        return self._scale(-1)

    def __truediv__(self, c):
        return self._scale(1 / c if not isinstance(c, Sym) else Fraction(1) / c)

    def finite(self):
        """np.nan_to_num: nan -> 0, +-inf -> +-largest finite double."""
        k = self.kind
        return ite(k == 0, self.val, ite(k == 1, MAXF, ite(k == -1, -MAXF, 0)))

    def is_finite(self):
        return self.kind == 0


def slog(v):
    """np.log: -inf at 0, nan below 0."""
    if isinstance(v, SX):
        raise core.Inconclusive('log of a non-finite value')
    if not isinstance(v, Sym):
        f = rat(v)
        if f == 1:
            return 0
        if f == 0:
            return SX(-1, 0)
        if f < 0:
            return SX(2, 0)
    lg = slog_term(v)
    pos = v > 0
    if pos is True or (isinstance(pos, SBool) and z3.is_true(z3.simplify(pos.t))):
        return lg
    # a provably positive argument gives an ordinary real (one forced decision, no fork when the path condition implies it)
    c = core.ctx()
    if isinstance(pos, SBool) and c.check(z3.Not(pos.t)) == z3.unsat:
        return lg
    return SX(ite(v > 0, 0, ite(v == 0, -1, 2)), lg)


def nan_to_num(v):
    if isinstance(v, SX):
        return v.finite()
    if isinstance(v, float):
        import math
        if math.isnan(v):
            return 0
        if math.isinf(v):
            return MAXF if v > 0 else -MAXF
    return v
