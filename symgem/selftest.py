"""Validation of the trusted base, run as extra jobs of every check:

* differential: every numpy/pandas intercept and every contract stub is executed in concrete mode (Fractions / floats)
  on pseudo-random inputs (seeded by VERIF_SEED) and compared with the real numpy / pandas / pymatgen / MDAnalysis /
  networkx call;
* lemma: '27 images suffice for reduced differences' decided by z3 for each pool lattice a property's distance contract uses.

A failure makes the check inconclusive (exit 3): nothing a broken intercept reports may be believed.
"""
from __future__ import annotations

import random
from fractions import Fraction as F

import numpy as np

from . import core
from .symnp import NPProxy, S

LATTICES_BY_PROPERTY = {
    'C02': ['cubic5', 'hex558', 'mono567b110', 'cubic5_rotz', 'ortho457', 'unit', 'ortho457_rot180', 'mono345'],
    'C07': ['cubic5', 'hex558', 'cubic5_rotz', 'hex558_rotz', 'mono567b110', 'ortho457', 'ortho457_rot180'],
    'C11': ['cubic5', 'hex558', 'tric', 'rhomb60'],
    'C17': ['tric', 'mono567b110', 'ortho457'],
    'C18': ['cubic5', 'tric', 'ortho457', 'hex558', 'mono567b110', 'cubic5_rotz'],
    'C12': ['cubic5', 'rhomb60', 'tric', 'hex558'],
}


def jobs(prop, tier, seed):
    js = [dict(name='selftest_differential', fn='differential_job', params=dict(seed=seed), selftest=True)]
    lats = LATTICES_BY_PROPERTY.get(prop, [])
    if tier == 'quick':
        lats = lats[:4]
    for lat in lats:
        js.append(dict(name=f'selftest_images27_{lat}', fn='lemma_job', params=dict(lattice=lat), selftest=True))
    return js


def _res(ok, msgs, n):
    return dict(status='ok' if ok else 'inconclusive', message='; '.join(msgs)[:1500], cex=[], known=[], validated=0,
                stats=dict(paths=1, forks=0, forced=0, aborted=0, solver_calls=0, solver_s=0.0, obligations=n, discharged=n if ok else 0,
                           trivial=0, sat=0, unsat=0, unknown=0, max_query_s=0.0),
                labels={'selftest comparisons': n}, samples=[dict(comparisons=n)], functions=[], notes=[])


def lemma_job(params):
    from . import pool, stubs
    ok, q = stubs.images27_lemma(pool.lattice_matrices()[params['lattice']])
    r = _res(ok, [] if ok else [f'27-image lemma FAILS for lattice {params["lattice"]}'], q)
    r['stats']['solver_calls'] = q
    r['stats']['unsat'] = q if ok else 0
    return r


def _fr(rng, lo=-3, hi=3, den=64):
    return F(rng.randint(lo * den, hi * den), den)


def differential_job(params):
    import pandas as pd
    rng = random.Random(1000 + int(params.get('seed', 0)))
    np_ = NPProxy()
    msgs, n = [], 0

    def same(name, got, exp, tol=1e-9):
        nonlocal n
        n += 1
        got = [v.val() if isinstance(v, core.SRoot) else v for v in np.asarray(got, dtype=object).ravel().tolist()] if any(isinstance(v, core.SRoot) for v in np.asarray(got, dtype=object).ravel().tolist()) else got
        g = np.asarray(got, dtype=object)
        e = np.asarray(exp)
        try:
            gf = np.array([float(v) for v in g.ravel().tolist()]).reshape(g.shape)
            ok = gf.shape == e.shape and np.allclose(gf, e.astype(float), atol=tol, rtol=0)
        except Exception as ex:  # noqa
            ok = False
        if not ok:
            msgs.append(f'{name}: intercept {g.tolist()} != numpy {e.tolist()}')

    def numpy_body():
      for rep in range(12):
          xs = [_fr(rng) for _ in range(7)]
          xf = np.array([float(v) for v in xs])
          xo = S(xs)
          same('mod', np_.mod(xo, 1), np.mod(xf, 1))
          same('around', np_.around(xo), np.around(xf))
          same('floor', np_.floor(xo), np.floor(xf))
          same('ceil', np_.ceil(xo), np.ceil(xf))
          same('sign', np_.sign(xo), np.sign(xf))
          same('abs', np_.abs(xo), np.abs(xf))
          same('where', np_.where(xo > 0, xo, 0), np.where(xf > 0, xf, 0))
          same('maximum.accumulate', np_.maximum.accumulate(xo), np.maximum.accumulate(xf))
          same('min', [np_.min(xo)], [np.min(xf)])
          same('max', [np_.max(xo)], [np.max(xf)])
          same('std', [np_.std(xo) ** 2], [np.std(xf) ** 2])
          same('astype(int)', S([v * 3 for v in xs]).astype(int), (xf * 3).astype(int))
          bins_inc = sorted({_fr(rng) for _ in range(4)})
          for right in (False, True):
              same('digitize inc', np_.digitize(xo, bins_inc, right=right), np.digitize(xf, [float(b) for b in bins_inc], right=right))
              same('digitize dec', np_.digitize(xo, bins_inc[::-1], right=right), np.digitize(xf, [float(b) for b in bins_inc[::-1]], right=right))
          if len(bins_inc) >= 2:
              same('histogram', np_.histogram(xo, bins=bins_inc)[0], np.histogram(xf, bins=[float(b) for b in bins_inc])[0])
          ints = [rng.randint(0, 4) for _ in range(8)]
          same('bincount', np_.bincount(S(ints), minlength=6), np.bincount(np.array(ints), minlength=6))
          rows = [[rng.randint(-1, 2), rng.randint(-1, 2)] for _ in range(6)]
          u, c = np_.unique(S(rows), return_counts=True, axis=0)
          ue, ce = np.unique(np.array(rows), return_counts=True, axis=0)
          same('unique(axis=0)', u, ue)
          same('unique counts', c, ce)
          same('unique flat', np_.unique(S(ints)), np.unique(np.array(ints)))
          same('linspace', np_.linspace(0, 1, 7), np.linspace(0, 1, 7))
          same('arange', np_.arange(0, 2.3, 0.1), np.arange(0, 2.3, 0.1))
          same('linalg.norm', np.array([v ** 2 for v in np.asarray(np_.linalg.norm(S([xs[:3], xs[3:6]]), axis=1)).tolist()], dtype=object),
               np.linalg.norm(np.array([xf[:3], xf[3:6]]), axis=1) ** 2)
          # symbolic-index get / set with negative wrap (concrete indices given as Fractions-free ints in object arrays)
          base = np.arange(12).reshape(3, 4)
          i0, i1 = rng.randint(-3, 2), rng.randint(-4, 3)
          same('getitem', [S(base)[S([i0]), S([i1])][0]], [base[i0, i1]])
          t1, t2 = S(base.copy()), base.copy()
          t1[S([i0, i0]), S([i1, (i1 + 1) % 4])] = S([100, 200])
          t2[[i0, i0], [i1, (i1 + 1) % 4]] = [100, 200]
          same('setitem', t1, t2)
          # FFT contract (Wiener-Khinchin)
          sig = np.array([[float(_fr(rng)) for _ in range(2)] for _ in range(4)])
          sp = np_.fft.fft(S([[F(repr(float(v))) for v in row] for row in sig]), n=8, axis=0)
          same('ifft(|fft|^2)', np_.fft.ifft(np_.abs(sp) ** 2, axis=0), np.fft.ifft(np.abs(np.fft.fft(sig, n=8, axis=0)) ** 2, axis=0).real, tol=1e-8)
          sp2 = np_.fft.rfft(S([[F(repr(float(v))) for v in row] for row in sig]), n=7, axis=0)
          same('irfft(|rfft|^2, n)', np_.fft.irfft(np_.square(np_.abs(sp2)), n=7, axis=0),
               np.fft.irfft(np.square(np.abs(np.fft.rfft(sig, n=7, axis=0))), n=7, axis=0), tol=1e-8)
          # sort_values intercept vs pandas (stable, two keys)
          from . import sympd
          df = pd.DataFrame(dict(a=[rng.randint(0, 3) for _ in range(6)], b=[rng.randint(0, 3) for _ in range(6)], c=list(range(6))))
          dfo = df.astype(object)
          got = sympd.sym_sort_values(dfo, ['a', 'b'], ignore_index=True) if False else None
    core.explore(numpy_body)
    # sort intercept needs symbolic entries to engage: run it inside an exploration with pinned symbols
    from . import sympd

    def sort_body():
        vals = [rng.randint(0, 3) for _ in range(5)]
        vals2 = [rng.randint(0, 3) for _ in range(5)]
        syms = []
        for i, v in enumerate(vals):
            s_ = core.sym_int(f'k{i}', 0, 3)
            core.assume(s_ == v)
            syms.append(s_)
        dfo = pd.DataFrame(dict(a=S(syms), b=vals2, c=list(range(5))))
        got = sympd.sym_sort_values(dfo, ['a', 'b'], ignore_index=True)['c'].tolist()
        exp = pd.DataFrame(dict(a=vals, b=vals2, c=list(range(5)))).sort_values(['a', 'b'], ignore_index=True, kind='stable')['c'].tolist()
        if got != exp:
            msgs.append(f'sort_values: intercept order {got} != pandas {exp}')
    for _ in range(6):
        core.explore(sort_body)
        n += 1

    # contracts against the real libraries on concrete inputs
    from pymatgen.core import Lattice
    from . import pool, stubs
    nrng = np.random.default_rng(2000 + int(params.get('seed', 0)))
    for lat in ('cubic5', 'hex558', 'tric', 'mono567b110', 'cubic5_rotz', 'rhomb60'):
        M = pool.lattice_matrices()[lat]
        LP = stubs.LatticeProxy(Lattice(M))
        pts = nrng.uniform(-0.5, 1.5, (6, 3)).round(3)
        real = Lattice(M).get_all_distances(pts[:3], pts[3:])

        def dist_body():
            for i in range(3):
                for j in range(3):
                    q = LP.dist2_generic([F(repr(float(v))) for v in pts[i]], [F(repr(float(v))) for v in pts[3 + j]])
                    if abs(float(q) - real[i, j] ** 2) > 1e-8:
                        msgs.append(f'distance contract ({lat}): {float(q) ** 0.5} != pymatgen {real[i, j]}')
        core.explore(dist_body)
        n += 9
        # KD-tree contract vs MDAnalysis (coordinates in the MDAnalysis frame so that both describe the same geometry)
        from MDAnalysis.lib.mdamath import triclinic_vectors
        from MDAnalysis.lib.pkdtree import PeriodicKDTree
        box = np.array(Lattice(M).parameters, dtype=np.float32)
        B = np.asarray(triclinic_vectors(box), dtype=float)
        frac = nrng.uniform(0, 1, (5, 3)).round(3)
        cent = nrng.uniform(0, 1, (3, 3)).round(3)
        cart, ccart = frac @ B, cent @ B
        tree = PeriodicKDTree(box=box)
        tree.set_coords(cart, cutoff=1.6)
        real_pairs = {tuple(p) for p in tree.search_tree(ccart, 1.6).tolist()}

        def kd_body():
            st = stubs.KDTreeContract(box)
            st.set_coords(S([[F(repr(float(v))) for v in row] for row in cart.round(9)]), cutoff=1.6)
            got = {tuple(p) for p in st.search_tree(S([[F(repr(float(v))) for v in row] for row in ccart.round(9)]), 1.6).tolist()}
            if got != real_pairs:
                # pairs whose distance is within 1e-4 of the radius may legitimately differ (float32 inside MDAnalysis)
                sus = got ^ real_pairs
                for (i, j) in sus:
                    d = pool.min_image_dist(B, cent[i], frac[j])
                    if abs(d - 1.6) > 1e-4:
                        msgs.append(f'KD-tree contract ({lat}): pair {(i, j)} at distance {d} differs from MDAnalysis')
        core.explore(kd_body)
        n += 1
    # networkx contract: same cost as the real shortest_path on random weighted grids
    import networkx as nx
    from harness.c10 import NxProxy
    for rep in range(4):
        G = nx.grid_2d_graph(3, 2)
        for a, b in G.edges:
            G[a][b]['weight'] = F(rng.randint(1, 40), 8)
        for weight in ('weight', None):
            real = nx.shortest_path(G, (0, 0), (2, 1), weight=weight)

            def nx_body():
                got = NxProxy(nx).shortest_path(G, (0, 0), (2, 1), weight=weight)
                cost = lambda p: len(p) - 1 if weight is None else sum(G[u][v]['weight'] for u, v in zip(p, p[1:]))  # noqa: E731
                if cost(got) != cost(real):
                    msgs.append(f'networkx contract: cost {cost(got)} != real {cost(real)}')
            core.explore(nx_body)
            n += 1
    # float64 x % 1 against numpy on special values
    import z3
    from . import fp
    for v in (-1e-17, 1 - 1e-16, -0.0, 0.0, 3.75, -3.75, 1e300, -1e-320, 5e-324, -2.5):
        t = fp.SF64(z3.FPVal(v, fp.F64)) % 1
        got = fp.fp_model_value(z3.simplify(t.t))
        n += 1
        if got != float(np.mod(np.float64(v), 1)):
            msgs.append(f'float64 mod: model {got!r} != numpy {float(np.mod(np.float64(v), 1))!r} for {v!r}')
    return _res(not msgs, msgs, n)
