"""Environment stubs with contracts for compiled third-party code GEMDAT calls."""
from __future__ import annotations

import itertools
from fractions import Fraction

import numpy as np

from . import core
from .core import SRoot, Sym, conj, disj, ite, rat
from .symnp import S, SymArray, has_sym


def rat_array(a):
    a = np.asarray(a, dtype=float)
    out = np.empty(a.shape, dtype=object)
    for idx in np.ndindex(a.shape):
        out[idx] = rat(a[idx])
    return out.view(SymArray)


def _pmg_lattice():
    from pymatgen.core import Lattice
    return Lattice


class LatticeProxy(_pmg_lattice()):
    """A pymatgen Lattice whose distance / coordinate methods accept symbolic arguments.  Concrete arguments go to
    the real (Cython-backed) methods; symbolic arguments use the contract of ``pbc_shortest_vectors``:

    * ``points`` given (a table of concrete fractional coordinates): a row that provably equals
      table row i is looked up in the *real* ``get_all_distances`` table (If-merged);
    * otherwise: componentwise reduction of the difference to [-1/2,1/2) (forking on its
      small integer part), then the minimum of the metric-tensor quadratic form over the 27
      neighbouring images, returned as ``SRoot`` (its square is polynomial).  Requires the
      '27 images suffice' lemma for the lattice (checked by selftest).
    """

    def __init__(self, lattice, points=None):
        super().__init__(np.asarray(lattice.matrix, dtype=float))
        self._lat = _pmg_lattice()(np.asarray(lattice.matrix, dtype=float))
        self.Mr = rat_array(lattice.matrix)
        M = np.asarray(self.Mr)
        self.G = [[sum(M[i][k] * M[j][k] for k in range(3)) for j in range(3)] for i in range(3)]
        self.points = None
        if points is not None:
            self.points = [[rat(v) for v in p] for p in np.asarray(points, dtype=float)]
            d = self._lat.get_all_distances(np.asarray(points, dtype=float), np.asarray(points, dtype=float))
            self.table = [[rat(float(v)) for v in row] for row in d]
        self.calls = 0

    def get_cartesian_coords(self, f):
        if has_sym(f):
            return np.dot(S(f), np.asarray(self.Mr)).view(SymArray)
        return self._lat.get_cartesian_coords(f)

    def quad(self, d):
        return core.ssum([d[i] * self.G[i][j] * d[j] for i in range(3) for j in range(3)])

    def _row_index_conds(self, row):
        return [conj([row[k] == p[k] for k in range(3)]) for p in self.points]

    def dist2_generic(self, a, b):
        d = [b[k] - a[k] for k in range(3)]
        red = []
        for x in d:
            if isinstance(x, Sym):
                for kint in (0, 1, -1, 2, -2, 3, -3):
                    if bool((x - kint >= Fraction(-1, 2)) & (x - kint < Fraction(1, 2))):
                        red.append(x - kint)
                        break
                else:
                    raise core.Inconclusive('distance contract: coordinate difference outside [-3.5, 3.5)')
            else:
                x = rat(x)
                red.append(x - round(x))
        best = None
        for n in itertools.product((-1, 0, 1), repeat=3):
            q = self.quad([red[k] + n[k] for k in range(3)])
            best = q if best is None else ite(q < best, q, best)
        return best

    @staticmethod
    def _concrete(a):
        arr = np.asarray(a, dtype=object)
        return not any(isinstance(v, (Sym, Fraction)) for v in arr.ravel().tolist())

    def get_all_distances(self, a, b):
        self.calls += 1
        if (not has_sym(a) or self._concrete(a)) and (not has_sym(b) or self._concrete(b)):
            return self._lat.get_all_distances(np.asarray(a, dtype=float), np.asarray(b, dtype=float))
        a = np.atleast_2d(np.asarray(S(a)))
        b = np.atleast_2d(np.asarray(S(b)))
        out = np.empty((len(a), len(b)), dtype=object)
        for i in range(len(a)):
            ca = self._row_index_conds(a[i]) if self.points is not None else None
            for j in range(len(b)):
                val = None
                if self.points is not None:
                    cb = self._row_index_conds(b[j])
                    if bool(conj([disj(ca), disj(cb)])):
                        for x, cx in enumerate(ca):
                            for y, cy in enumerate(cb):
                                v = self.table[x][y]
                                val = v if val is None else ite(conj([cx, cy]), v, val)
                if val is None:
                    val = SRoot(self.dist2_generic(a[i], b[j]))
                out[i, j] = val
        return out.view(SymArray)


class SitesSym:
    """A concrete pymatgen Structure whose ``frac_coords`` is an exact-rational SymArray, so
    that rows selected by symbolic site ids are If-merged instead of concretised."""

    def __init__(self, structure):
        self._s = structure

    @property
    def frac_coords(self):
        return rat_array(self._s.frac_coords)

    def __getattr__(self, n):
        return getattr(self._s, n)

    def __len__(self):
        return len(self._s)

    def __iter__(self):
        return iter(self._s)

    def __getitem__(self, i):
        return self._s[int(i)]


def images27_lemma(matrix):
    """Decide with z3 (linear real arithmetic) that for every difference reduced to [-1/2,1/2]^3
    no lattice image outside {-1,0,1}^3 (checked up to |n|<=3) is strictly closer than the best
    of the 27 neighbouring images.  Returns (holds: bool, queries: int)."""
    import z3
    M = [[rat(v) for v in row] for row in np.asarray(matrix, dtype=float)]
    G = [[sum(M[i][k] * M[j][k] for k in range(3)) for j in range(3)] for i in range(3)]
    d = [z3.Real(f'd{i}') for i in range(3)]
    s = z3.Solver()
    s.set('timeout', 60000)
    for x in d:
        s.add(x >= z3.RealVal('-1/2'), x <= z3.RealVal('1/2'))

    def quad(n):
        v = [d[i] + int(n[i]) for i in range(3)]
        return z3.Sum([v[i] * z3.RealVal(str(G[i][j])) * v[j] for i in range(3) for j in range(3)])
    near = list(itertools.product((-1, 0, 1), repeat=3))
    qs = 0
    for n in itertools.product(range(-3, 4), repeat=3):
        if max(abs(v) for v in n) < 2:
            continue
        s.push()
        # |d+n|^2 - |d+m|^2 is linear in d (the d G d terms cancel); z3 simplifies the difference
        for m in near:
            s.add(z3.simplify(quad(n) - quad(m)) < 0)
        r = s.check()
        qs += 1
        s.pop()
        if r != z3.unsat:
            return False, qs
    return True, qs


def rat_inverse(M):
    """Exact inverse of a 3x3 matrix of Fractions."""
    from fractions import Fraction
    a = [[Fraction(v) for v in row] for row in M]
    det = (a[0][0] * (a[1][1] * a[2][2] - a[1][2] * a[2][1]) - a[0][1] * (a[1][0] * a[2][2] - a[1][2] * a[2][0])
           + a[0][2] * (a[1][0] * a[2][1] - a[1][1] * a[2][0]))
    cof = [[(a[(i + 1) % 3][(j + 1) % 3] * a[(i + 2) % 3][(j + 2) % 3] - a[(i + 1) % 3][(j + 2) % 3] * a[(i + 2) % 3][(j + 1) % 3])
            for j in range(3)] for i in range(3)]
    return [[cof[j][i] / det for j in range(3)] for i in range(3)]


class KDTreeContract:
    """MDAnalysis.lib.pkdtree.PeriodicKDTree by its documented behaviour.

    The periodic cell is B = triclinic_vectors(box) (MDAnalysis frame: a along x, b in the xy-plane; box cast to float32
    as the library does).  set_coords / search_tree wrap tree points and query centres into the primary cell of B
    (apply_PBC), and the result is the set of (centre, point) pairs whose minimum-image distance *in that cell* is
    <= radius.  Coordinates are read as exact reals (their float32 cast inside the library is below the tolerance band).
    """

    created = []

    def __init__(self, box, leafsize=10):
        from MDAnalysis.lib.mdamath import triclinic_vectors
        from pymatgen.core import Lattice
        self.box = np.asarray(box, dtype=np.float32)
        B = np.asarray(triclinic_vectors(self.box), dtype=float)
        self.B = B
        self.LP = LatticeProxy(Lattice(B))
        self.Binv = rat_inverse(np.asarray(self.LP.Mr).tolist())
        self.coords = None
        self.cutoff = None
        KDTreeContract.created.append(self)

    def _frac(self, x):
        return [core.ssum([x[k] * self.Binv[k][c] for k in range(3)]) for c in range(3)]

    def set_coords(self, coords, cutoff=None):
        if cutoff is None:
            raise RuntimeError('Provide a cutoff distance with tree.set_coords(...)')
        self.coords = np.asarray(S(coords))
        self.cutoff = cutoff

    def search_tree(self, centers, radius):
        if self.coords is None:
            raise RuntimeError('Unbuilt tree. Run tree.set_coords(...)')
        if bool(self.cutoff < radius):
            raise RuntimeError('Set cutoff greater or equal to the radius.')
        centers = np.atleast_2d(np.asarray(S(centers)))
        pairs = []
        r2 = radius * radius
        for i in range(len(centers)):
            uc = self._frac(centers[i])
            for j in range(len(self.coords)):
                ux = self._frac(self.coords[j])
                q = self.LP.dist2_generic(uc, ux)
                if bool(q <= r2):
                    pairs.append([i, j])
        return np.array(pairs, dtype=np.intp).reshape(-1, 2)
