#!/bin/bash
# Build the overlay virtualenv used by every check (offline; idempotent).
set -e
cd "$(dirname "$0")"
V="$PWD/.venv"
if [ ! -x "$V/bin/python" ] || ! "$V/bin/python" -c "import z3, cvc5, crosshair, numpy, pymatgen" 2>/dev/null; then
  rm -rf "$V"
  /venv/bin/python -m venv "$V"
  SP=$("$V/bin/python" -c "import sysconfig; print(sysconfig.get_paths()['purelib'])")
  echo "import site; site.addsitedir('/venv/lib/python3.12/site-packages')" > "$SP/_venv_overlay.pth"
  PIP_NO_INDEX=1 "$V/bin/python" -m pip install -q --no-index --find-links /opt/veriftools/wheels z3-solver cvc5 crosshair-tool >/dev/null
fi
"$V/bin/python" -c "import z3, cvc5, crosshair, numpy, pymatgen; print('overlay ok', z3.get_version_string())"
