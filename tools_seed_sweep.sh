#!/bin/bash
# Apply every seeded change to /repo in turn, run the quick check of its property, undo. Prints one line per seed.
cd /verif
for d in seeded/*/; do
  s=$(basename $d); p=$(python3 -c "import json;print(json.load(open('$d/meta.json'))['property'])")
  ./tools_try_seed.sh $d $p quick > /tmp/sweep_$s.log 2>&1; rc=$?
  echo "$s property=$p exit=$rc $(grep -c '^VIOLATION' /tmp/sweep_$s.log) violation line(s)"
done
