#!/usr/bin/env python3
"""Collect the summary lines of thorough-tier runs (logs given on the command line) into THOROUGH.md."""
import re, sys, os, time
rows = []
for f in sys.argv[1:]:
    txt = open(f).read()
    m = re.findall(r'^(C\d+) \[thorough\] jobs=(\d+) paths=(\d+) obligations=(\d+) discharged=(\d+) queries=(\d+) solver=([\d.]+)s validated=(\d+) wall=([\d.]+)s -> exit (\d)', txt, re.M)
    if m:
        rows.append(m[-1] + (txt.count('KNOWN-FINDING:'),))
rows.sort()
out = ['# Thorough tier: end-to-end runs on the unchanged tree', '',
       f'Produced by `./vcheck <id> --tier thorough` (16 workers) on {time.strftime("%Y-%m-%d")}; exit 0 = every obligation discharged within the thorough bounds',
       '(known findings are printed as KNOWN-FINDING lines and do not change the exit status).', '',
       '| property | jobs | symbolic paths | obligations | solver queries | solver s (sum over workers) | wall s | exit | KNOWN-FINDING lines |',
       '|---|---|---|---|---|---|---|---|---|']
for r in rows:
    out.append(f'| {r[0]} | {r[1]} | {r[2]} | {r[3]} (discharged {r[4]}) | {r[5]} | {r[6]} | {r[8]} | {r[9]} | {r[10]} |')
open(os.path.join(os.path.dirname(os.path.abspath(__file__)), 'THOROUGH.md'), 'w').write('\n'.join(out) + '\n')
print('\n'.join(out))
