#!/usr/bin/env python3
"""Regenerate MANIFEST.json from the table below (kept in one place so it stays valid)."""
import json, os
HERE = os.path.dirname(os.path.abspath(__file__))
CLAIMED = {
 # id: (technique, level text, level note, design ref)
}
exec(open(os.path.join(HERE, 'manifest_table.py')).read())
props = [json.loads(l) for l in open(os.path.join(HERE, 'properties.jsonl'))]
checks = []
for p in props:
    pid = p['id']
    if pid not in CLAIMED:
        continue
    tech, text, note, ref = CLAIMED[pid]
    checks.append(dict(
        property_id=pid,
        quick_cmd=f'./vcheck {pid} --tier quick',
        thorough_cmd=f'./vcheck {pid} --tier thorough',
        evidence_file=f'evidence/{pid}.json',
        replay_cmd_template='./vcheck replay {path}',
        engine='symgem',
        level_claimed=dict(category='model_checking', text=text, design_ref=ref),
        level_note=note,
        technique=tech,
    ))
na = [dict(property_id=k, reason=v) for k, v in NOT_APPLICABLE.items() if k not in CLAIMED]
m = dict(
    version=1,
    setup_cmd='./setup.sh',
    hooks=dict(guard='GEMDAT_VERIF', enable='no source hooks: checks import /repo/src unmodified and patch module globals in-process (GEMDAT_VERIF=1 is exported by ./vcheck but read by nothing in /repo)',
               baseline_off_cmd='cd /repo && /venv/bin/python -m pytest -ra -q -p no:cacheprovider --timeout=900 --continue-on-collection-errors',
               source_commits=[], add_only=True),
    engines=[dict(name='symgem', path='symgem/', serves_properties=sorted(CLAIMED),
                  kind_free_text='path-forking symbolic execution of the real GEMDAT Python source on numpy object arrays of z3-backed scalars; obligations discharged by z3 (cvc5 for FP kernels); counterexamples replayed on the unmodified code')],
    checks=checks,
    notes=NOTES,
    not_applicable=na,
)
json.dump(m, open(os.path.join(HERE, 'MANIFEST.json'), 'w'), indent=1)
print('claimed', sorted(CLAIMED), 'n/a', [x['property_id'] for x in na])
