#!/bin/bash
# usage: tools_try_seed.sh <seed dir> <property> [tier] [extra vcheck args]: apply seed to /repo, run the check, undo.
D=$(realpath "$1"); P=$2; T=${3:-quick}; shift 3 2>/dev/null
cd /repo && git diff --quiet || { echo "/repo dirty"; exit 2; }
git -C /repo apply "$D/patch.diff" || { echo "patch does not apply"; exit 2; }
cd /verif && ./vcheck $P --tier $T "$@" > /tmp/try_seed_$$.log 2>&1; RC=$?
git -C /repo checkout -- .
cp evidence/$P.json /tmp/try_seed_ev_$$.json 2>/dev/null
grep -E "^(VIOLATION|INCONCLUSIVE|KNOWN|  job=)" /tmp/try_seed_$$.log | head -6; tail -1 /tmp/try_seed_$$.log
echo "seed=$(basename $D) property=$P tier=$T exit=$RC"
exit $RC
