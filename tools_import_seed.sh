#!/bin/bash
# usage: tools_import_seed.sh <worktree> <seed id> <property>: copy <worktree>/seed into seeded/<id>, confirm it, run the quick check against it.
W=$1; ID=$2; P=$3
mkdir -p /verif/seeded/$ID && cp $W/seed/patch.diff $W/seed/demo.py $W/seed/NOTE.md /verif/seeded/$ID/ || exit 2
git -C /repo worktree remove --force $W
cd /verif && ./tools_confirm_seed.sh seeded/$ID > /tmp/import_$ID.confirm 2>&1; echo "confirm_exit=$?" >> /tmp/import_$ID.confirm
cat /tmp/import_$ID.confirm
