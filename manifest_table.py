BMC = 'bounded symbolic model checking of the real code (symbolic execution + z3)'
NOTES = ('Every check is ./vcheck <id>: symbolic execution of the functions imported from /repo/src at run time; '
         'exit 0 = all obligations unsat within the stated bounds, exit 1 = solver counterexample reproduced on the '
         'real code (VIOLATION line), exit 3 = inconclusive (solver unknown, budget, non-reproducing model).')
CLAIMED['C03'] = (
    'symbolic execution of _calculate_transition_events / ffill / bfill on symbolic site histories; z3 decides every obligation per path',
    'For every array shape within the bound, every site/inner-site history (symbolic integers) is covered: each explored path of the real '
    'code is a class of histories and each oracle obligation is an unsat z3 query over that class; counterexamples are replayed on the real code.',
    'Trusts numpy/pandas structural operations as executed, the If-term intercepts for np.where/maximum.accumulate/fancy indexing '
    '(validated by replaying path models concretely), z3. Shapes (frames, atoms) are bounded; site ids only in [-1,3).',
    'DESIGN.md §3 C03')
NOT_APPLICABLE = {
 'C16': 'cache faithfulness / interrupted write is decided inside C pickle, the filesystem and SHA-1; the only symbolic variable (a prefix length of one concrete byte string) degenerates into enumeration, not a solver verdict; loaders need input files absent offline',
 'C20': 'memoisation transparency depends on functools.lru_cache (C), weakref semantics and CPython address reuse under GC; creation/destruction interleavings are not values an SMT solver ranges over, and a model of CPython would check the model, not the code',
}
for _p in ['C01','C02','C04','C05','C06','C07','C08','C09','C10','C11','C12','C13','C14','C15','C17','C18','C19']:
    NOT_APPLICABLE[_p] = 'harness not landed yet in this round (planned, see DESIGN.md §3/§6); no check is claimed until its quick and thorough commands have run end-to-end'
CLAIMED['C04'] = (
    'symbolic execution of _calculate_transition_events + _generic_transitions_to_jumps (real pandas) on symbolic histories; z3 per-path obligations',
    'For every shape within the bound all site/inner-site histories are covered symbolically; default jumps are proved equal to the '
    'consecutive-distinct-visited-site pairs, stricter settings proved to only select default jumps consistent with the states, residence m+1 subset of m.',
    'Trusts pandas groupby/iterrows/DataFrame construction as executed and z3. T, atoms, sites bounded; m concrete per job.',
    'DESIGN.md §3 C04')
CLAIMED['C05'] = (
    'symbolic execution of the matrix/counter/diffusivity/occupancy code on symbolic event tables and state arrays; z3 per-path obligations',
    'Event/jump tables with symbolic site ids and state arrays with symbolic states; every matrix cell, counter entry, the diffusivity formula '
    '(linear in the symbolic counts over concrete pool geometry), the occupancies, the counting part of Jumps.rates and the edge set of Jumps.to_graph (arbitrary positive attempt frequency) are proved against counting oracles for all values in the bound. '
    'One listed known finding (NOSITE rows alias the last site in Transitions.matrix) is reported as KNOWN-FINDING; violations outside that class still fail.',
    'Trusts the symgem intercepts for np.unique(axis=0)/symbolic fancy assignment (validated by concrete replay of path models), pymatgen '
    'get_all_distances on concrete sites (cross-checked against brute force), z3. k rows, n sites, T, A bounded.',
    'DESIGN.md §3 C05')
CLAIMED['C12'] = (
    'symbolic execution of Collective._compute (real pandas loops) on symbolic jump tables; z3 per-path obligations',
    'Jump tables with symbolic atoms, sites, start/stop times and window: the reported pair set is proved equal to the set of close-in-time/space '
    'pairs of different atoms, each once, and the solo/collective counts are proved consistent, for every value within the bound.',
    'Trusts the fork-on-< sort_values intercept, the site-distance table taken from the real pymatgen call on the concrete pool sites '
    '(cross-checked against brute-force minimum image), z3. k <= 3 (4 thorough) rows; concrete pool geometries.',
    'DESIGN.md §3 C12')
for _p in ('C04', 'C05', 'C12'):
    NOT_APPLICABLE.pop(_p, None)
CLAIMED['C19'] = (
    'symbolic execution of _split_transitions_events / Transitions.split / Jumps.split on symbolic event times and histories; z3 per-path obligations',
    'Event tables with symbolic times (and the whole states->events->split->jumps pipeline on symbolic histories) for every (frames, n_parts, rows) '
    'shape in the bound: every event proved to land in exactly one part, re-based by one non-negative offset per part, parts chronological, part jumps '
    'a subset of the whole. Trajectory.split checked structurally for every (T, n_parts, equal_parts) in the bound. One listed known finding '
    '(n_parts > frames-1 raises IndexError) is reported as KNOWN-FINDING.',
    'Trusts pandas boolean filtering / numpy array_split / linspace as executed, z3. Shapes bounded.',
    'DESIGN.md §3 C19')
NOT_APPLICABLE.pop('C19', None)
CLAIMED['C01'] = (
    'symbolic execution of Trajectory.positions/displacements/cumulative_displacements/distances_from_base_position with real-valued (z3 Real+ToInt) and binary64 (z3 FloatingPoint) coordinates',
    'REAL mode: all coordinates in [-2,3] and all integer shifts in [-2,2] for every (T,A) in the bound: wrap range, integrality, minimum-image range, '
    'frame reconstruction and shift invariance are z3-unsat obligations (chained lemmas with recorded cuts); length = Cartesian norm is a polynomial identity per pool lattice. '
    'FP mode: wrap range and idempotence of .positions for every finite double (QF_FP).',
    'Floats read as reals in REAL mode (rounding of sums outside the claim); pymatgen metric_tensor taken as M M^T exactly; half-cell ties excluded for shift invariance; '
    'np.mod float64 semantics modelled after numpy npy_divmod; z3.',
    'DESIGN.md §3 C01')
NOT_APPLICABLE.pop('C01', None)
CLAIMED['C13'] = (
    'symbolic execution of Trajectory.drift/apply_drift_correction/filter on displacement-form trajectories with real-valued steps; z3 (LRA + ToInt) per-entry obligations with chained lemmas',
    'For every trajectory of the bounded shapes with steps strictly inside the half cell: drift = reference mean, corrected steps = steps - mean, zero reference mean, '
    'first frame/species/lattice/metadata unchanged, idempotence, invariance under an added rigid time-dependent translation, floating == all-others-fixed; '
    'all as z3-unsat obligations for str/list/none selections and Species/Element objects.',
    'Displacement-form input (the wrapped-positions -> minimum-image-steps step is re-proved as a lemma where filter() round-trips); steps reaching the half cell excluded; floats read as reals; z3.',
    'DESIGN.md §3 C13')
NOT_APPLICABLE.pop('C13', None)
CLAIMED['C15'] = (
    'symbolic execution of Trajectory slicing/filter/split/extend and read-only queries on real-valued symbolic coordinates over enumerated call sequences; z3 per-entry obligations with recorded cuts',
    'Every call sequence up to the bounded length is executed on a trajectory whose coordinates are symbolic reals (both internal representations); after every call, '
    'the source and every derived trajectory are proved (z3 unsat, per entry) to hold the expected frames/atoms of the input modulo 1, and every later .positions answer of an object is proved '
    'identical to its earlier answer (before and after displacement-type queries); also for positions-mode sources whose stored coordinates are still unwrapped.',
    'Call sequences and shapes are enumerated bounds; floats read as reals; half-cell ties excluded; after each proof the stored coordinates are replaced by the proved closed form (cut) where they provably equal it, so terms stay shallow; z3.',
    'DESIGN.md §3 C15')
NOT_APPLICABLE.pop('C15', None)
CLAIMED['C06'] = (
    'symbolic execution of mean_squared_displacement / distances_from_base_position / tracer_diffusivity on displacement-form trajectories; polynomial identities decided by z3',
    'For every displacement-form trajectory of the bounded shapes on the pool lattices: each MSD entry equals the time-origin average of squared unwrapped Cartesian displacements, '
    'distances equal Cartesian lengths, tracer diffusivity equals its formula for dimensions 1-3 (z3 unsat on pc AND NOT identity); the same identities hold on an object that was analysed, extended in place and analysed again.',
    'np.fft by the Wiener-Khinchin contract (exact over the reals); floats read as reals, physical constants/time step exact rationals; metric tensor = M M^T; z3.',
    'DESIGN.md §3 C06')
NOT_APPLICABLE.pop('C06', None)
CLAIMED['C14'] = (
    'symbolic execution of TrajectoryMetrics / TrajectoryMetricsStd / center_of_mass on displacement-form trajectories with symbolic charge and temperature; polynomial identities and scaling relations decided by z3',
    'Formulas (density, molarity, tracer and centre-of-mass diffusivity, Nernst-Einstein conductivity as numerator/denominator of the code\'s quotient, Haven ratio, mean/std over parts), '
    'the k^2, k^-3, 1/s scaling laws for concrete k, s, Haven ratio one for identical motion, and sum of amplitudes = final distance are z3-unsat obligations for all trajectories of the bounded shapes.',
    'Attempt frequency / vibration-amplitude scaling are outside (periodogram). Constants, masses, time step exact rationals; symbolic divisions become quotient symbols with defining facts; '
    'distance series cut to arbitrary non-negative reals for amplitudes; z3.',
    'DESIGN.md §3 C14')
NOT_APPLICABLE.pop('C14', None)
CLAIMED['C08'] = (
    'symbolic execution of trajectory_to_volume on real-valued sample coordinates (z3) and of the voxel<->fractional mapping on binary64/int64 terms (QF_BVFP, cvc5)',
    'REAL: for all sample coordinates in [0,1) every voxel count equals the number of samples whose floor(x*n) is that voxel, the sum equals frames x atoms, edge bounds hold for the listed resolutions and for every symbolic resolution in (L/8, L]. '
    'FP: the round trip voxel -> fractional centre -> voxel is the identity for every grid size n and index v in the bound (cvc5 unsat over all int64/float64 values in range). '
    'Counter width: a voxel collecting any number c of samples up to the bound stores exactly c (symbolic count through a wrap-around model of the allocated dtype, z3).',
    'np.linspace edges read as exact k/n; positions in [0,1) (C01); numpy float64/int64 conversion semantics as modelled in symgem.fp; z3 and cvc5 1.4.',
    'DESIGN.md §3 C08')
NOT_APPLICABLE.pop('C08', None)
CLAIMED['C09'] = (
    'symbolic execution of Volume.probability/get_free_energy and the node selection of free_energy_graph; LOG/EXP as uninterpreted functions with instantiated axioms; z3',
    'For all non-negative real voxel densities (also totals below one) and temperatures in the bound: probabilities are count/total (numerator/denominator of the code\'s quotient), visited voxels carry -k_B T LOG(p) >= 0, '
    'denser never higher, probabilities sum to one, unvisited voxels carry the largest finite double (>= 1e7, inside the finite range) and are excluded from the graph built with the path threshold.',
    'LOG/EXP axioms (ln x <= x-1, EXP(LOG x)=x, monotone, bounded below on [1e-12,1]) instead of libm; finiteness as a range check in real arithmetic; '
    'two-step composition (facts about the grid, then graph builder on arbitrary grids with these facts); z3.',
    'DESIGN.md §3 C09')
NOT_APPLICABLE.pop('C09', None)
CLAIMED['C10'] = (
    'symbolic execution of free_energy_graph / optimal_path / optimal_percolating_path / Pathway on symbolic voxel energies; networkx.shortest_path by its contract; z3 per-path obligations against all simple paths',
    'For every energy assignment (blocked or passable voxels) on the bounded grids: graph nodes/edges/weights are exactly the admissible voxels/neighbour pairs, returned paths are valid, '
    'report the voxel energies and are proved minimal against every simple path of the oracle\'s own periodic neighbourhood for each method; percolating paths end one cell away and wrap into the grid; '
    'wrapped/fractional sites per axis for arbitrary integer sites. Two listed known findings (missing corner moves, dead minmax-energy branch) are reported as KNOWN-FINDING.',
    'networkx.shortest_path replaced by its contract (minimum-weight simple path; cross-checked by executing real networkx on the 2x2x1 grid in the thorough tier); EXP uninterpreted monotone; '
    'start voxel fixed by translation symmetry; grids bounded by the number of simple paths; z3.',
    'DESIGN.md §3 C10')
NOT_APPLICABLE.pop('C10', None)
CLAIMED['C11'] = (
    'symbolic execution of radial_distribution_between_species and radial_distribution on symbolic coordinates/states; minimum-image distances by the pymatgen contract; z3 (NRA) per-path obligations',
    'For every position of the symbolic atom in the cell (and every state history) within the bound: each histogram bin times its ideal-gas shell count equals the number of pairs in the shell, '
    'raw counts symmetric in the species; per-state entries equal the number of frames in that state and distance bin and every pair within the cut-off is counted exactly once.',
    'Lattice.get_all_distances by its contract (27-image metric-tensor minimum after reduction; lemma per pool lattice); positions in [0,1) (wrap cut); np.arange edges exact rationals; '
    'placeholder structure for species lookup; few atoms/frames; z3.',
    'DESIGN.md §3 C11')
NOT_APPLICABLE.pop('C11', None)
CLAIMED['C02'] = (
    'symbolic execution of _calculate_atom_states / integer_remap / _compute_site_radius on symbolic atom positions; PeriodicKDTree and pymatgen distances by their contracts; z3 (NRA) banded obligations',
    'For every atom position on the scanned lines through the cell (each pool lattice, both radius forms, inner fractions): the outer/inner state is site k exactly when the true minimum-image distance '
    'to site k is within the (scaled) radius (1e-3 A band), inner in {none, outer}, per-label indices are global; automatic radius proved non-overlapping for every vibration amplitude.',
    'PeriodicKDTree by contract (periodic cell = triclinic_vectors(float32 box), wrap, min-image within radius); positions restricted to lines (one symbolic axis) on non-cubic cells because nlsat does not finish 3-D queries; '
    'non-overlapping radii; strongly triclinic cells outside; z3.',
    'DESIGN.md §3 C02')
NOT_APPLICABLE.pop('C02', None)
CLAIMED['C17'] = (
    'symbolic execution of ShapeAnalyzer.find_equivalent_positions / analyze_positions / analyze_trajectory with real pymatgen symmetry operations on symbolic site and position coordinates; z3 (NRA)',
    'For every site coordinate and input coordinate along the scanned axis (incl. values next to cell faces) and every operation of the group: the number of collected points equals the number of '
    '(operation, position) pairs within the radius, each point lies within the radius and its length equals the minimum-image distance of the source to the equivalent site; also after supercell folding.',
    'Lattice.get_all_distances by contract; metric exactly invariant under the group (checked); one symbolic axis at a time, one position; groups with few operations; z3.',
    'DESIGN.md §3 C17')
NOT_APPLICABLE.pop('C17', None)
CLAIMED['C18'] = (
    'symbolic execution of Orientations (vector construction, normalize, symmetrize, transform, spherical r, autocorrelation via the FFT contract) on symbolic coordinates/vectors/matrices; z3',
    'Bond vectors proved equal to the minimum-image offset times the lattice for every centre position in the cell and every offset in the bound; normalize as quotient (numerator = component, denominator = length), '
    'symmetrize = one image per operation (checked against the group), transform = matrix product for a symbolic 3x3 matrix; autocorrelation proved equal to the definition under the intended transform length, '
    'while the real call (irfft default length) is a listed known finding reproduced by replay.',
    'np.fft by contract; arcsin/arctan2 uninterpreted (only r checked); frame 0 concrete; z3.',
    'DESIGN.md §3 C18')
NOT_APPLICABLE.pop('C18', None)
CLAIMED['C07'] = (
    'relational symbolic execution: the real code is run on symbolic data and on its rotated / translated / relabelled image, and z3 decides the relation between the two results',
    'For all atom positions on the scanned lines and all symbolic event/jump/sample data in the bound: site states identical on a lattice and its rigid rotation and after translating atoms and sites together '
    'through the cell faces (outside a 1e-5 A band around sphere surfaces); jump diffusivity identical after rotation; jumps identical up to relabelling under atom permutation; count matrices permuted '
    'consistently under site permutation; density volume rolled by whole-voxel shifts; optimal path cost unchanged under grid roll.',
    'Rotations, shift vectors and permutations are concrete pool members (data symbolic); relies on the contracts of C02/C05/C08/C10; radial distributions and metrics under rotation are outside; z3.',
    'DESIGN.md §3 C07')
NOT_APPLICABLE.pop('C07', None)
