BMC = 'bounded symbolic model checking of the real code (symbolic execution + z3)'
NOTES = ('Every check is ./vcheck <id>: symbolic execution of the functions imported from /repo/src at run time; '
         'exit 0 = all obligations unsat within the stated bounds, exit 1 = solver counterexample reproduced on the '
         'real code (VIOLATION line), exit 3 = inconclusive (solver unknown, budget, non-reproducing model).')
CLAIMED['C03'] = (
    'symbolic execution of _calculate_transition_events / ffill / bfill on symbolic site histories; z3 decides every obligation per path',
    'For every array shape within the bound, every site/inner-site history (symbolic integers) is covered: each explored path of the real '
    'code is a class of histories and each oracle obligation is an unsat z3 query over that class; counterexamples are replayed on the real code.',
    'Trusts numpy/pandas structural operations as executed, the If-term intercepts for np.where/maximum.accumulate/fancy indexing '
    '(validated by replaying path models concretely), z3. Shapes (frames, atoms) are bounded; site ids only in [-1,3).',
    'DESIGN.md §3 C03')
NOT_APPLICABLE = {
 'C16': 'cache faithfulness / interrupted write is decided inside C pickle, the filesystem and SHA-1; the only symbolic variable (a prefix length of one concrete byte string) degenerates into enumeration, not a solver verdict; loaders need input files absent offline',
 'C20': 'memoisation transparency depends on functools.lru_cache (C), weakref semantics and CPython address reuse under GC; creation/destruction interleavings are not values an SMT solver ranges over, and a model of CPython would check the model, not the code',
}
for _p in ['C01','C02','C04','C05','C06','C07','C08','C09','C10','C11','C12','C13','C14','C15','C17','C18','C19']:
    NOT_APPLICABLE[_p] = 'harness not landed yet in this round (planned, see DESIGN.md §3/§6); no check is claimed until its quick and thorough commands have run end-to-end'
